def register(check, not_yet):
    check("C17", "other",
          "Bounded symbolic verification: the real Keyword/Symbol __lt__/__eq__ and runtime.compare ASTs are interpreted over "
          "unbounded z3 strings (Option String namespaces) and z3 decides antisymmetry, transitivity, totality, compare=0 iff =, "
          "nil-lowest and the ns-then-name order on every path; sort/sort-by run under CrossHair on symbolic int lists. "
          "A test can only sample pairs; the solver covers all strings.",
          "Trusted: z3 string theory (str.< = CPython code-point order), PySym interpreter (fails closed), stdlib sorted() as a "
          "stable sort for a strict weak order (environment).",
          "SMT (z3) over a symbolic interpretation of the real Python ASTs; CrossHair for sort", "DESIGN.md section 4 C17", "B:pysym + A:crosshair")
    check("C20", "other",
          "Bounded symbolic verification: compiled core arithmetic and basilisp.lang.numbers run on CrossHair symbolic ints "
          "(unbounded dividend, enumerated divisors); quot/rem/mod identities decided over exact rationals (z3 Real) by PySym.",
          "Trusted: CrossHair int model, z3 LIA/LRA; Fraction modelled as exact rational with denominator==1 iff integral.",
          "CrossHair symbolic execution + SMT (z3) over Int/Real", "DESIGN.md section 4 C20", "A:crosshair + B:pysym")
    check("C12", "model_checking",
          "SMT-based bounded model checking of the real Atom/RefBase methods: the methods' ASTs are compiled to a "
          "statement-granularity CFG and unrolled with a symbolic schedule (one solver variable per step), uninterpreted "
          "values, update functions and validator; z3 decides linearizability, validator safety, watch soundness, "
          "deadlock-freedom and single-thread progress for every schedule within the bound. Solver-chosen schedules are "
          "replayed on the real class with line-gated threads.",
          "Bound: 2 threads x 1 op (quick), up to 3 threads / 2 ops (thorough); switches between statements only "
          "(thread-local statements fused = partial-order reduction). RLock assumed correct; update functions pure.",
          "SMT bounded model checking (z3) of a CFG generated from the real source, symbolic schedule", "DESIGN.md section 4 C12", "B:pysym")
    check("C13", "model_checking",
          "Same BMC engine on Delay (Atom.swap inlined, body = effectful call with ghost invocation counters), Promise "
          "(Condition model with timed wake-ups) and a PySym path analysis of the Future wrapper against a contract stub.",
          "Bound: 2-3 racing threads; executors and threading primitives are environment; Condition.wait_for contract stated in evidence.",
          "SMT bounded model checking (z3), symbolic schedule; PySym for Future", "DESIGN.md section 4 C13", "B:pysym")
