def register(check, not_yet):
    check("C17", "other",
          "Bounded symbolic verification: the real Keyword/Symbol __lt__/__eq__ and runtime.compare ASTs are interpreted over "
          "unbounded z3 strings (Option String namespaces) and z3 decides antisymmetry, transitivity, totality, compare=0 iff =, "
          "nil-lowest and the ns-then-name order on every path; sort/sort-by run under CrossHair on symbolic int lists. "
          "A test can only sample pairs; the solver covers all strings.",
          "Trusted: z3 string theory (str.< = CPython code-point order), PySym interpreter (fails closed), stdlib sorted() as a "
          "stable sort for a strict weak order (environment).",
          "SMT (z3) over a symbolic interpretation of the real Python ASTs; CrossHair for sort", "DESIGN.md section 4 C17", "B:pysym + A:crosshair")
    check("C20", "other",
          "Bounded symbolic verification: compiled core arithmetic and basilisp.lang.numbers run on CrossHair symbolic ints "
          "(unbounded dividend, enumerated divisors); quot/rem/mod identities decided over exact rationals (z3 Real) by PySym.",
          "Trusted: CrossHair int model, z3 LIA/LRA; Fraction modelled as exact rational with denominator==1 iff integral.",
          "CrossHair symbolic execution + SMT (z3) over Int/Real", "DESIGN.md section 4 C20", "A:crosshair + B:pysym")
