def register(check, not_yet):
    check("C17", "other",
          "Bounded symbolic verification: the real Keyword/Symbol __lt__/__eq__ and runtime.compare ASTs are interpreted over "
          "unbounded z3 strings (Option String namespaces) and z3 decides antisymmetry, transitivity, totality, compare=0 iff =, "
          "nil-lowest and the ns-then-name order on every path; sort/sort-by run under CrossHair on symbolic int lists. "
          "A test can only sample pairs; the solver covers all strings.",
          "Trusted: z3 string theory (str.< = CPython code-point order), PySym interpreter (fails closed), stdlib sorted() as a "
          "stable sort for a strict weak order (environment).",
          "SMT (z3) over a symbolic interpretation of the real Python ASTs; CrossHair for sort", "DESIGN.md section 4 C17", "B:pysym + A:crosshair")
    check("C20", "other",
          "Bounded symbolic verification: (A) compiled + - * / and basilisp.lang.numbers run on CrossHair symbolic ints; the inlined call "
          "form, apply and inline-functions=false must agree. (B) quot / rem / mod are decided on the compiler's own intermediate "
          "representation: the real compiler generates the Python AST of those core functions from core.lpy on every run, and PySym "
          "interprets that IR together with the real numbers.py (singledispatch tables and the fraction-normalising decorator read from "
          "the AST) over z3 Int / exact Real: truncated-quotient, remainder-sign and floored-modulus specifications hold for every "
          "dividend (unbounded) and symbolic or huge divisors, for proper ratios too, results are ints when integral; add/subtract/"
          "multiply/divide are exact and their result representation depends only on the operand kinds, symmetrically for + and *.",
          "The IR capture is closed over every core function the arithmetic functions refer to, and runtime.equals is interpreted from "
          "/repo's runtime.py, so a rewrite of rem in terms of mod and = is still decided; kernel models are replayed on the real functions. "
          "CrossHair obligations for quot/rem/mod use a bounded dividend (|x| <= 25) over direct / non-inlined / apply call forms. "
          "Trusted: CrossHair int model, z3 LIA/LRA; Fraction modelled as exact rational with denominator==1 iff integral; runtime "
          "rest-argument helpers and the trampoline are modelled as intrinsics. Decimal/float contagion is enumerated over a 13-value universe only.",
          "CrossHair symbolic execution + SMT (z3) over Int/Real", "DESIGN.md section 4 C20", "A:crosshair + B:pysym")
    check("C12", "model_checking",
          "SMT-based bounded model checking of the real Atom/RefBase methods: the methods' ASTs are compiled to a "
          "statement-granularity CFG and unrolled with a symbolic schedule (one solver variable per step), uninterpreted "
          "values, update functions and validator; z3 decides linearizability, validator safety, watch soundness, "
          "deadlock-freedom and single-thread progress for every schedule within the bound. Solver-chosen schedules are "
          "replayed on the real class with line-gated threads.",
          "Bound: 2 threads x 1 op (quick), up to 3 threads / 2 ops (thorough); switches between statements only "
          "(thread-local statements fused = partial-order reduction). RLock assumed correct; update functions pure.",
          "SMT bounded model checking (z3) of a CFG generated from the real source, symbolic schedule", "DESIGN.md section 4 C12", "B:pysym")
    check("C13", "model_checking",
          "Same BMC engine on Delay (Atom.swap inlined, body = effectful call with ghost invocation counters), Promise "
          "(Condition model with timed wake-ups) and a PySym path analysis of the Future wrapper against a contract stub.",
          "Bound: 2-3 racing threads; executors and threading primitives are environment; Condition.wait_for contract stated in evidence.",
          "SMT bounded model checking (z3), symbolic schedule; PySym for Future", "DESIGN.md section 4 C13", "B:pysym")
    check("C07", "other",
          "Bounded symbolic verification: for each pipeline (every listed function alone in all five application forms, sampled "
          "pairs/triples via comp) CrossHair runs the core functions compiled from core.lpy on every input list over the property's element "
          "universe {nil, false, true, 0, 1, 2, :a} up to the length bound (solver-chosen codes) with a symbolic numeric parameter and compares "
          "with an 18-function Python reference; PROVED = path tree exhausted. Separate obligation families: input pulls of <f>+take on a counting "
          "iterator for every function (early termination), completion exactly once, one transducer value applied five times (state per application), "
          "infinite inputs. distinct on inputs containing a boolean together with the number equal to it is a recorded finding isolated in its own obligations.",
          "Bound: input length <= 2 (quick) / 3 (thorough); pipeline shapes enumerated/sampled by VERIF_SEED, not solver-chosen. "
          "Native LazySeq/Cons run concretely. Obligations CrossHair cannot exhaust in the time budget are reported INCONCLUSIVE.",
          "CrossHair (z3) symbolic execution of the compiled core library vs reference model", "DESIGN.md section 4 C07", "A:crosshair")
    check("C11", "other",
          "Bounded symbolic verification of the binding kernel: runtime.push_thread_bindings / pop_thread_bindings / "
          "Var.push_bindings / RefBase._validate are interpreted by PySym from an arbitrary valid pre-state with the binding map's "
          "iteration order, each Var's dynamic flag and each validator's verdict as solver choices; z3 decides that a push either "
          "succeeds completely or leaves every stack untouched, and that push+pop restores the state. 14 programs over binding / with-bindings* / "
          "bound-fn* / get-thread-bindings / set! (incl. captures taken before and after a set!) run under CrossHair with symbolic values against "
          "hand-computed visibility tables; one concrete run with real threads and futures.",
          "Cross-thread visibility and conveyance to futures are outside (threading.local / executors are environment). "
          "Refutations are replayed on the real runtime by re-creating Vars until the real map iterates in the model's order.",
          "SMT (z3) over a symbolic interpretation of the real Python ASTs with symbolic map iteration order", "DESIGN.md section 4 C11", "B:pysym")
    check("C16", "other",
          "Bounded symbolic verification of the real reader under CrossHair: input is a solver-chosen string over the delimiter/"
          "dispatch alphabet (and a fully symbolic Unicode string in the thorough tier); totality (only SyntaxError with line/col, only "
          "Lisp data in forms), EOF classification (metamorphic, real reader only), true spans (re-reading the span text gives an "
          "equal form), LF = CR = CRLF renderings of one token string read alike, token-level totality for dispatch macros and reader conditionals "
          "(character alphabets of this length cannot spell them), and the StreamReader's peek/loc bookkeeping against a reference.",
          "Bound: length <= 2-3 characters / 2-4 tokens (quick), 3-5 (thorough) per obligation family; obligations are split by first character or token for parallelism.",
          "CrossHair (z3) symbolic execution of reader.py", "DESIGN.md section 4 C16", "A:crosshair")
    check("C19", "other",
          "Bounded symbolic verification of the compiled bencode/EDN/JSON namespaces under CrossHair: encode == reference encoder, "
          "decode(encode v) = v, and for every cut position k (a solver variable) of a two-message stream decode-all returns exactly "
          "the complete messages plus the untouched remainder, and resuming yields the rest; EDN/JSON round trips on shapes with symbolic leaves.",
          "Bound: byte strings <= 3, 2 messages, small ints; shapes enumerated. Python's json/int()/str() are environment.",
          "CrossHair (z3) symbolic execution of the compiled codec namespaces", "DESIGN.md section 4 C19", "A:crosshair")
    check("C15", "translation_validation",
          "Translation validation of the real optimizer: PythonASTOptimizer.visit is wrapped (in the check's process) while every "
          "bundled namespace and a generated corpus are compiled from source; every (before, after) module pair is walked in lock "
          "step: statement differences must be one of the allowed drops (side conditions by purity analysis) and every rewritten "
          "expression is an SMT query over uninterpreted functions with world-token threading, so value, operand order and number of "
          "effects are all part of the term (unsat = same behaviour). Synthetic before-trees cover every public operator-module "
          "function x operand shapes and each visit_* method. sat answers are replayed by executing both versions.",
          "Assumes plain name loads are effect-free and operator.X(a,b) means 'a X b' per the Python library reference; untouched "
          "statements are equal by AST identity.",
          "SMT (z3, EUF) equivalence queries per rewritten expression + structural rule check", "DESIGN.md section 4 C15", "B:pysym")
    check("C05", "other",
          "Bounded symbolic verification under CrossHair on the real collection classes: for every pair of representations "
          "(vector/list/cons/lazy seq/queue) same elements => = both ways, same hash, interchangeable as map key / set member; "
          "= iff elements pairwise equal (a boolean never equals a number), symmetric; transitivity on representation triples; "
          "scalars; maps/sets with symbolic leaves (with the recorded bool-vs-number finding isolated in its own obligation so any "
          "other map/set violation is still reported).",
          "Bound: sequences of length <= 2 over {nil,true,false,0,1,2} (hashing realises integers, so the element universe is finite); "
          "C-level hash functions run concretely.",
          "CrossHair (z3) symbolic execution of the real equality/hash code", "DESIGN.md section 4 C05", "A:crosshair")
    check("C10", "other",
          "Bounded symbolic verification of name munging: util.munge is interpreted by PySym from its AST (replacement table read from "
          "_MUNGE_REPLACEMENTS) over position-flattened symbolic strings (code points as z3 Ints); one SMT query per collision class "
          "(each table character, the reserved-word suffix, '..') and a final query proving munge injective on all names outside those "
          "classes. Each sat model is replayed through the real compiler: (def a 1) (def b 2) a => 2, in both linking modes.",
          "Bound: |a| <= 2-3, |b| <= |a|-1+len(replacement), every code point a symbol may contain. The collision classes are recorded "
          "known findings (munge is non-injective by design); a collision outside them is a violation. def/alias/refer/redef histories (incl. def inside called, nested and async functions) are "
          "one exhaustive concrete run of 864 two-step histories x 3 option sets (incl. re-marking an already-read Var as ^:redef / ^:dynamic), labelled as not solver-decided in the evidence.",
          "SMT (z3 LIA) over a symbolic interpretation of the real munge AST, flattened string encoding", "DESIGN.md section 4 C10", "B:pysym")
    check("C03", "other",
          "Bounded symbolic verification of the real printer and reader under CrossHair: print -> read -> compare (one form, equal, same "
          "type, deterministic, same text when re-printed) for every string up to the length bound over an escape-relevant alphabet "
          "(solver-chosen indices, exhaustive), symbolic ints/ratios/bytes, boundary floats, decimals under *print-dup*, imaginary "
          "numbers, keywords/symbols, collection shapes with symbolic leaves under a symbolic *print-namespace-maps*, metadata under "
          "*print-meta*, UUID/regex, and every scalar kind (special and boundary floats, ratio, imaginary, big int, strings with escapes, keyword, "
          "symbol, uuid, regex, bytes) as a direct element of every container incl. #py collections and seqs; two recorded findings (regex backslashes, #py dict key order) are isolated in their own obligations.",
          "Bound: strings <= 2 (quick) / 3 (thorough) over 23 characters; ints realised by str(); #inst not checked. "
          "Reader line/col metadata is stripped before comparing re-printed text.",
          "CrossHair (z3) symbolic execution of obj.lrepr / reader.read_str", "DESIGN.md section 4 C03", "A:crosshair")
    check("C01", "translation_validation",
          "Translation validation of the real compiler pipeline: each corpus program (special-form fragment: if/do/let*/fn*/loop*/recur/"
          "letfn*/try/throw/def/literals/invocation, incl. Python-unsafe names) is placed in 6 syntactic contexts and compiled by "
          "reader->analyzer->generator->optimizer->exec under the 8 code-generation option sets; the compiled function runs on "
          "CrossHair symbolic parameters (nil/bool/int) and its result or exception class is compared with a ~200-line reference "
          "evaluator of the same source on every path.",
          "Program shapes are a fixed corpus (42 bodies) plus a seeded generated sample (48 quick / 200 thorough programs from "
          "vlib/props/c01_gen.py: snapshots by bare name, closures created before a re-binding, try/finally around recur, def in "
          "statement position; logged values compared as a multiset, a compile failure counts as a difference), not solver-chosen; "
          "parameters range over nil/true/false/0/1 (ints are realised at the persistent-collection boundary). Trusted: the reference "
          "evaluator. Two recorded findings (closures created in a loop body; a finally clause reading a loop local after recur).",
          "CrossHair (z3) symbolic execution of compiler output vs reference evaluator", "DESIGN.md section 4 C01", "A:crosshair")
    check("C02", "translation_validation",
          "Same pipeline with effect markers: (t :k v) appends :k to a trace and returns a symbolic parameter, so branch choices, "
          "catch clauses and loop counts are solver-decided; the compiled program's trace and result must equal the reference "
          "evaluator's (left-to-right, exactly once, never on untaken branches) over 16 enclosing forms (incl. loop and fn-arity recur) x argument position x 5 "
          "compound sibling kinds (incl. host property reads and method calls on an effectful target) plus if / when / and-or test positions and macro/interop/operator programs.",
          "Shapes enumerated; the quick tier takes 3 seeded (position, kind) combinations of every enclosing form. The recorded hoisting finding is matched only when every marker ran exactly once "
          "and the value is right (trace is a permutation); any other trace difference is a violation.",
          "CrossHair (z3) symbolic execution of compiler output vs reference evaluator traces", "DESIGN.md section 4 C02", "A:crosshair")
    check("C18", "other",
          "Bounded symbolic exploration of the real MultiFunction and core hierarchy functions under CrossHair: operation codes, keys and "
          "a role permutation of four keywords (which fixes the method map's iteration order) are solver-chosen; after every step a call "
          "to every dispatch value is compared with a from-scratch resolution (unique candidate preceding all others / default / "
          "ambiguous / none) and isa?/parents/ancestors/descendants are checked for mutual consistency; dedicated three-candidate "
          "scenarios cover all 24 iteration orders.",
          "Bound: histories of length 2 (quick) / 3 (thorough) over 3 dispatch values + :default, plus derive/underive-only histories of "
          "length 3 / 4 over every ordered pair of 3 tags (redundant edges are real edges, cycle-closing derives must be refused); keyword hashes fixed by PYTHONHASHSEED=0. "
          "Data is concrete on each path: the solver's role is choosing operations/orders exhaustively.",
          "CrossHair (z3) exploration of solver-chosen operation histories on the real classes", "DESIGN.md section 4 C18", "A:crosshair")
    check("C08", "other",
          "Bounded symbolic verification under CrossHair of the compiled function objects and runtime.apply/partial: for each enumerated "
          "arity signature the argument count (0..5), the apply split point, the partial split point and the argument values are solver "
          "variables; outcome (selected arity, parameters in order, rest seq or nil, arity error before the body runs) is compared with "
          "the 6-line arity rule for direct calls, calls through the Var, apply with vector/list/lazy tails and infinite tails, partial.",
          "Signatures are enumerated (6 quick / 13 thorough). Constant stack for recur is a single concrete 10^6-iteration run under a "
          "recursion limit of 250, not a solver verdict.",
          "CrossHair (z3) symbolic execution of compiled fn objects + runtime.apply/partial", "DESIGN.md section 4 C08", "A:crosshair")
    check("C09", "other",
          "Bounded symbolic verification under CrossHair: each destructuring pattern (sequential with & rest and :as, nested, skipping; "
          ":keys/:strs/:syms, :or, :as, renamed and nested, namespaced keys) in let / fn parameters / loop is compiled by the real "
          "compiler, and its macroexpansion is compiled separately; both run on symbolic values (vector/list/lazy seq/nil of <= 3 nil/int, "
          "maps with symbolic key presence, nil) and must bind exactly what the real nth / nthnext / get return. Syntax-quote templates "
          "are evaluated with a symbolic unquoted value and spliced sequence: holes filled, collection types preserved, symbols qualified "
          "to the Var they denote (core / local / alias / special form), auto-gensyms one symbol per template and fresh per template and per read.",
          "8 hand-written patterns + generated patterns over the documented vocabulary (vlib/props/c09_grammar.py: every key style x "
          "false/nil/0/computed :or defaults, quoted-symbol/string/int keys, keyword-argument rests, nesting <= 3; 24 quick / 70 thorough) "
          "checked against a compositional reference built on the real nth/nthnext/get for conforming, short, over-long, lazy, nil and wrongly "
          "typed values; 4 fixed + 16 quick / 48 thorough generated syntax-quote templates (vlib/props/c09_sq.py: symbols of every kind, unquote, splice, "
          "all four collection types, a template nested inside an unquote) matched structurally with gensyms as per-template placeholders. The reader is given runtime.resolve_alias as resolver, as the importer and REPL do.",
          "CrossHair (z3) symbolic execution of compiled destructuring / syntax-quote forms vs nth/get oracle", "DESIGN.md section 4 C09", "A:crosshair")
    check("C14", "other",
          "Partial, bounded symbolic verification: (1) importer._get_basilisp_bytecode is interpreted by PySym over a symbolic byte "
          "string of <= 14 bytes (flattened byte encoding) and symbolic mtime/size < 2^32: accepted iff the 12 header bytes are exactly "
          "magic+mtime+size, every other input (incl. every truncation 0..11) is rejected with an exception class that exec_module "
          "catches (read from its AST) before marshal.loads is reached; write-then-read and header truncation also under CrossHair; "
          "(2) keyword/keyword_from_hash/hash_kw by PySym with two uninterpreted per-process hash functions: a keyword from cached code "
          "is identical, equal and hash-equal to the one the reading process creates; (3) a real cache file truncated at sampled offsets "
          "and with perturbed header fields goes through the real import path in a subprocess: recompiled, correct, cache rewritten; a "
          "two-process replay under different PYTHONHASHSEEDs backs (2).",
          "Outside: truncation inside the marshalled payload as a solver question (C), whole-namespace cache-vs-source equivalence, "
          "atomic rewrite, 64-bit hash collisions. marshal.loads contract (EOFError on truncation) validated by the runs in (3).",
          "SMT (z3) over PySym interpretation of the real header codec and keyword intern code; CrossHair; subprocess replays", "DESIGN.md section 4 C14", "B:pysym + A:crosshair")
    check("C06", "exploration",
          "Single-threaded consumption histories only: CrossHair chooses a consumption program (first/rest/next/seq on any cell "
          "obtained so far) and the sequence length, for lazy-seq, map, filter, concat (1+n and 2+2), mapcat, lazy-cat, "
          "iterate and seqs over Python iterables, with one obligation per index at which the element producer throws, and a second consumer vocabulary "
          "(rest, iter()/next() once or twice, nth) for the Python iteration protocol, compiled from core.lpy and driving the real native LazySeq/Cons; an offset model says "
          "what each access must return, that each producer index runs at most once (twice for the index that threw), that nothing "
          "beyond the demanded index is produced, and that an exception does not corrupt the sequence. The native module is rebuilt "
          "from /repo/rust (cargo, offline) and the fresh build is used when it differs from the installed .so.",
          "The schedules quantifier (2-3 consumer threads, deadlock freedom) is NOT decided: the mutual exclusion lives in native Rust "
          "(parking_lot ReentrantMutex under the GIL), outside what CrossHair or my translator can encode. Data is concrete per path.",
          "CrossHair (z3) exploration of solver-chosen consumption histories on the real lazy sequences", "DESIGN.md section 4 C06, section 5", "A:crosshair")
    check("C04", "exploration",
          "Bounded history exploration under CrossHair on the real wrapper classes and core functions: operation codes, the earlier value "
          "to operate on (branching histories), keys (incl. two objects with colliding hashes) and values are solver-chosen; a Python "
          "model (list / dict / set + metadata) is updated alongside and every value ever produced is compared with its model at the end "
          "(so a mutation of an earlier version, e.g. through a transient, is caught); with-meta must give an equal, equal-hash value "
          "carrying exactly the given metadata and leave the original's metadata alone.",
          "Weakest kind of claim in this family: the C cores of pyrsistent / immutables run concretely; history length 2 (quick, keys incl. nil, "
          "values 0/nil) / 3 (thorough), operations incl. the variadic forms (two keys / pairs / elements per call), plus every single operation on the full domain (values 0/nil/false compared strictly), from seeds of 0, 3, 4 "
          "(shared hash bits) or 34 elements. Metadata of derived values (pop, into, ...) is not prescribed by the property and not checked.",
          "CrossHair (z3) exploration of solver-chosen operation histories vs a Python model", "DESIGN.md section 4 C04", "A:crosshair")
