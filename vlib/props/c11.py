"""C11 — dynamic bindings are scoped, thread-local and conveyed (Engine B kernel + Engine A histories)."""
from __future__ import annotations

import itertools
import json

import z3

from .. import env
from ..env import INCONCLUSIVE, PROVED, REFUTED, Result
from ..pysym import inputs as si
from ..pysym.interp import ExcVal, Interp, Intrinsic, LazyIntrinsic, Obj, PyRaise, SBool, SVal, Unsupported
from ..pysym.run import check, run_parallel

LEVEL = "other"
RT = "src/basilisp/lang/runtime.py"
REF = "src/basilisp/lang/reference.py"


class PVec:
    """model of the persistent vector used as the per-thread frame stack"""

    def __init__(self, items=()):
        self.items = tuple(items)

    def pysym_getattr(self, I, name):
        if name == "cons":
            return Intrinsic("pvec.cons", lambda I_, x: PVec(self.items + (x,)))
        if name == "peek":
            return Intrinsic("pvec.peek", lambda I_: self.items[-1] if self.items else None)
        if name == "pop":
            def pop(I_):
                if not self.items:
                    raise PyRaise(ExcVal("IndexError", ("pop from empty vector",)))
                return PVec(self.items[:-1])
            return Intrinsic("pvec.pop", pop)
        raise Unsupported(f"pvec.{name}")

    def pysym_iterate(self, I):
        return list(self.items)


class OrderedMap:
    """a persistent map whose iteration order is a solver-visible choice (the real map iterates in
    address-hash order, which differs from process to process)"""

    def __init__(self, pairs, path):
        self.pairs = list(pairs)
        perms = list(itertools.permutations(range(len(self.pairs))))
        k = path.choose(len(perms), "map_iteration_order")
        self.order = perms[k]
        path.ghost.setdefault("observe", {})["iteration_order"] = list(self.order)

    def pysym_getattr(self, I, name):
        if name == "items":
            return Intrinsic("map.items", lambda I_: [self.pairs[i] for i in self.order])
        raise Unsupported(f"map.{name}")


def mk_interp():
    I = Interp(unwind=6)
    # stubs: exception payload construction, locks, persistent set constructor
    I.intrinsics["ExceptionInfo"] = LazyIntrinsic("ExceptionInfo", lambda I_, fr, node: ExcVal("ExceptionInfo"))
    I.intrinsics["basilisp.lang.exception.ExceptionInfo"] = I.intrinsics["ExceptionInfo"]
    I.intrinsics["RuntimeException"] = None
    return I


def scenario(n_vars, prop):
    def run(I: Interp, path):
        mod = I.module(RT)
        # RuntimeException is defined in runtime.py as a plain Exception subclass
        from ..pysym.pyproto import _ExcClass, register_exception
        register_exception("RuntimeException", ["RuntimeException", "Exception", "BaseException", "object"])
        mod.globals["RuntimeException"] = _ExcClass("RuntimeException")
        lset_mod = I.module("src/basilisp/lang/set.py")
        lset_mod.globals["set"] = Intrinsic("lset.set", lambda I_, members=(), meta=None: frozenset(members))
        VarC = I.global_lookup(mod, "Var")
        VB = I.global_lookup(mod, "_VarBindings")
        TB = I.global_lookup(mod, "_ThreadBindings")
        lock = Obj(I.external_class("RLock"), {})
        I.method_hooks[("RLock", "__enter__")] = lambda I_, o: None
        I.method_hooks[("RLock", "__exit__")] = lambda I_, o, *a: None
        vars_, pre = [], []
        for i in range(n_vars):
            dyn = si.sym_bool(path, f"var{i}_dynamic")
            rejects = si.sym_bool(path, f"var{i}_validator_rejects")
            depth = path.choose(3, f"var{i}_prior_depth")
            stack = [si.sym_val(path, f"var{i}_prior{j}") for j in range(depth)]
            tl = Obj(VB, {"bindings": list(stack)})
            validator = Intrinsic(f"validator{i}", (lambda rej: (lambda I_, v: SBool(z3.Not(rej.t))))(rejects))
            v = Obj(VarC, {"_dynamic": dyn, "_tl": tl, "_lock": lock, "_root": si.sym_val(path, f"var{i}_root"),
                           "_validator": validator, "_watches": {}, "_is_bound": True, "_name": f"v{i}", "_ns": None, "_meta": None})
            vars_.append(v)
            pre.append(list(stack))
        # a non-dynamic Var has no thread-local storage (Var.__init__/set_dynamic keep this invariant)
        new_vals = [si.sym_val(path, f"new{i}") for i in range(n_vars)]
        frames0 = PVec([frozenset()])
        tb = Obj(TB, {"_bindings": frames0})
        mod.globals["_THREAD_BINDINGS"] = tb
        m = OrderedMap(list(zip(vars_, new_vals)), path)
        push = I.global_lookup(mod, "push_thread_bindings")
        pop = I.global_lookup(mod, "pop_thread_bindings")

        def stacks():
            return [list(v.fields["_tl"].fields["bindings"]) for v in vars_]

        try:
            I.call(push, [m])
            raised = False
        except PyRaise as e:
            if e.exc.cls not in ("RuntimeException", "ExceptionInfo"):
                raise
            raised = True
        now = stacks()
        frames = tb.fields["_bindings"].items
        if raised:
            # establishing the binding failed half way: nothing may remain bound
            return now == pre and frames == frames0.items
        if prop == "push":
            ok = all(len(now[i]) == len(pre[i]) + 1 and now[i][:-1] == pre[i] and now[i][-1] is new_vals[i] for i in range(n_vars))
            return ok and len(frames) == 2 and frames[-1] == frozenset(vars_)
        # push then pop restores everything
        I.call(pop, [])
        return stacks() == pre and tb.fields["_bindings"].items == frames0.items

    return run


REPLAY = r'''
import basilisp.main as _m
_m.init()
from basilisp.lang import runtime as rt, symbol as sym, map as lmap
ns = rt.Namespace.get_or_create(sym.symbol("verif.c11"))
ORDER_WANTED = {order!r}      # position of each Var in the map's iteration order
DYN = {dyn!r}; REJ = {rej!r}
found = False
for attempt in range(400):
    vs = []
    for i, d in enumerate(DYN):
        v = rt.Var(ns, sym.symbol(f"v{{attempt}}_{{i}}"), dynamic=d)
        v.bind_root(("root", i))
        if REJ[i]:
            v.set_validator(lambda x, i=i: not (isinstance(x, tuple) and x[0] == "new"))
        vs.append(v)
    m = lmap.map({{v: ("new", i) for i, v in enumerate(vs)}})
    order = [vs.index(k) for k, _ in m.items()]
    if order == ORDER_WANTED:
        found = True
        break
if not found:
    print("HOLDS (could not realise the model's iteration order in 400 attempts)"); sys.exit(0)
before = [v.value for v in vs]
try:
    rt.push_thread_bindings(m)
    print("HOLDS (push succeeded)"); rt.pop_thread_bindings(); sys.exit(0)
except Exception as e:
    after = [v.value for v in vs]
    if after != before:
        print("REPRODUCED: push_thread_bindings raised", type(e).__name__, "but left bindings behind:", before, "->", after,
              "iteration order", order, "dynamic", DYN, "rejects", REJ)
        sys.exit(1)
print("HOLDS")
'''


def run(rep, tier, seed):
    rep.encoded(RT, ["push_thread_bindings", "pop_thread_bindings", "Var.push_bindings", "Var.pop_bindings", "Var.dynamic",
                     "_ThreadBindings.push_bindings", "_ThreadBindings.pop_bindings"], "PySym (AST interpreted, symbolic map iteration order)")
    rep.encoded(REF, ["RefBase._validate"], "PySym (validator verdict symbolic)")
    quick = tier == "quick"
    jobs = []
    for n in ([1, 2] if quick else [1, 2, 3]):
        for prop in ("push", "push-pop"):
            jobs.append((n, prop))
    results = run_parallel([(lambda n=n, p=p: check(scenario(n, p), mk_interp, timeout_s=300, max_paths=40000)) for n, p in jobs])
    for (n, prop), r in zip(jobs, results):
        rep.solver_s += r["stats"]["solver_s"]
        rep.queries += r["stats"]["queries"]
        name = f"kernel/{prop}/{n}-vars"
        res = Result(name, INCONCLUSIVE, engine="B:pysym+z3", secs=r["secs"], stats=r["stats"],
                     bound=f"{n} Vars in the binding map, every iteration order, prior stacks of depth 0..2, each Var dynamic or not, "
                           "each validator accepting or rejecting")
        if r["status"] == "proved":
            res.verdict, res.detail = PROVED, f"all {r['stats']['paths']} paths"
        elif r["status"] == "refuted":
            cex = r["cex"]
            order = r.get("extra", {}).get("iteration_order", list(range(n)))
            dyn = [bool(cex.get(f"var{i}_dynamic")) for i in range(n)]
            rej = [bool(cex.get(f"var{i}_validator_rejects")) for i in range(n)]
            res.witness = {"iteration_order": order, "dynamic": dyn, "validator_rejects": rej, "why": r["message"]}
            body = REPLAY.format(order=order, dyn=dyn, rej=rej)
            path = env.write_replay(rep.prop, name, body)
            ok, line = env.replay_reproduces(path)
            res.reproduced = ok
            if ok:
                res.verdict, res.replay, res.detail = REFUTED, path, line[:300]
                rep.classify_refutation(res, {"kind": "failed-push-leaves-bindings"}, line[:200])
            else:
                rep.nonrepro += 1
                res.detail = "model not reproduced: " + line[:200]
        elif r["status"] == "error":
            raise env.HarnessError(f"PySym crashed on {name}: {r['message']}")
        else:
            res.detail = r["message"][:300]
        rep.add(res)
    rep.bounds = {"vars_per_binding_form": "1-2 (quick) / 1-3 (thorough)", "iteration order": "all permutations (solver choice)",
                  "prior stack depth": "0..2 per Var"}
    rep.outside = ["cross-thread visibility and conveyance to futures (threading.local and executors are environment)",
                   "the `binding` macro's try/finally (covered by C01-style compilation checks only)"]
    rep.assumptions += ["lset.set / the frame stack vector behave as a set / stack", "validator verdict is an arbitrary boolean per Var"]
    rep.trusted += ["z3 5.1.0", "vlib/pysym"]
    rep.extra["explanation"] = ("one push (and push-then-pop) step from an arbitrary valid pre-state; the order in which the binding map is "
                                "iterated is a solver variable, because the real order is address-hash order")
