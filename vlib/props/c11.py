"""C11 — dynamic bindings are scoped, thread-local and conveyed (Engine B kernel + Engine A histories)."""
from __future__ import annotations

import itertools
import json

import z3

from .. import env
from ..env import INCONCLUSIVE, PROVED, REFUTED, Result
from ..pysym import inputs as si
from ..pysym.interp import ExcVal, Interp, Intrinsic, LazyIntrinsic, Obj, PyRaise, SBool, SVal, Unsupported
from ..pysym.run import check, run_parallel

LEVEL = "other"
RT = "src/basilisp/lang/runtime.py"
REF = "src/basilisp/lang/reference.py"


class PVec:
    """model of the persistent vector used as the per-thread frame stack"""

    def __init__(self, items=()):
        self.items = tuple(items)

    def pysym_getattr(self, I, name):
        if name == "cons":
            return Intrinsic("pvec.cons", lambda I_, x: PVec(self.items + (x,)))
        if name == "peek":
            return Intrinsic("pvec.peek", lambda I_: self.items[-1] if self.items else None)
        if name == "pop":
            def pop(I_):
                if not self.items:
                    raise PyRaise(ExcVal("IndexError", ("pop from empty vector",)))
                return PVec(self.items[:-1])
            return Intrinsic("pvec.pop", pop)
        raise Unsupported(f"pvec.{name}")

    def pysym_iterate(self, I):
        return list(self.items)


class OrderedMap:
    """a persistent map whose iteration order is a solver-visible choice (the real map iterates in
    address-hash order, which differs from process to process)"""

    def __init__(self, pairs, path):
        self.pairs = list(pairs)
        perms = list(itertools.permutations(range(len(self.pairs))))
        k = path.choose(len(perms), "map_iteration_order")
        self.order = perms[k]
        path.ghost.setdefault("observe", {})["iteration_order"] = list(self.order)

    def pysym_getattr(self, I, name):
        if name == "items":
            return Intrinsic("map.items", lambda I_: [self.pairs[i] for i in self.order])
        raise Unsupported(f"map.{name}")


def mk_interp():
    I = Interp(unwind=6)
    # stubs: exception payload construction, locks, persistent set constructor
    I.intrinsics["ExceptionInfo"] = LazyIntrinsic("ExceptionInfo", lambda I_, fr, node: ExcVal("ExceptionInfo"))
    I.intrinsics["basilisp.lang.exception.ExceptionInfo"] = I.intrinsics["ExceptionInfo"]
    I.intrinsics["RuntimeException"] = None
    return I


def scenario(n_vars, prop):
    def run(I: Interp, path):
        mod = I.module(RT)
        # RuntimeException is defined in runtime.py as a plain Exception subclass
        from ..pysym.pyproto import _ExcClass, register_exception
        register_exception("RuntimeException", ["RuntimeException", "Exception", "BaseException", "object"])
        mod.globals["RuntimeException"] = _ExcClass("RuntimeException")
        lset_mod = I.module("src/basilisp/lang/set.py")
        lset_mod.globals["set"] = Intrinsic("lset.set", lambda I_, members=(), meta=None: frozenset(members))
        VarC = I.global_lookup(mod, "Var")
        VB = I.global_lookup(mod, "_VarBindings")
        TB = I.global_lookup(mod, "_ThreadBindings")
        lock = Obj(I.external_class("RLock"), {})
        I.method_hooks[("RLock", "__enter__")] = lambda I_, o: None
        I.method_hooks[("RLock", "__exit__")] = lambda I_, o, *a: None
        vars_, pre = [], []
        for i in range(n_vars):
            dyn = si.sym_bool(path, f"var{i}_dynamic")
            rejects = si.sym_bool(path, f"var{i}_validator_rejects")
            depth = path.choose(3, f"var{i}_prior_depth")
            stack = [si.sym_val(path, f"var{i}_prior{j}") for j in range(depth)]
            tl = Obj(VB, {"bindings": list(stack)})
            validator = Intrinsic(f"validator{i}", (lambda rej: (lambda I_, v: SBool(z3.Not(rej.t))))(rejects))
            v = Obj(VarC, {"_dynamic": dyn, "_tl": tl, "_lock": lock, "_root": si.sym_val(path, f"var{i}_root"),
                           "_validator": validator, "_watches": {}, "_is_bound": True, "_name": f"v{i}", "_ns": None, "_meta": None})
            vars_.append(v)
            pre.append(list(stack))
        # a non-dynamic Var has no thread-local storage (Var.__init__/set_dynamic keep this invariant)
        new_vals = [si.sym_val(path, f"new{i}") for i in range(n_vars)]
        frames0 = PVec([frozenset()])
        tb = Obj(TB, {"_bindings": frames0})
        mod.globals["_THREAD_BINDINGS"] = tb
        m = OrderedMap(list(zip(vars_, new_vals)), path)
        push = I.global_lookup(mod, "push_thread_bindings")
        pop = I.global_lookup(mod, "pop_thread_bindings")

        def stacks():
            return [list(v.fields["_tl"].fields["bindings"]) for v in vars_]

        try:
            I.call(push, [m])
            raised = False
        except PyRaise as e:
            if e.exc.cls not in ("RuntimeException", "ExceptionInfo"):
                raise
            raised = True
        now = stacks()
        frames = tb.fields["_bindings"].items
        if raised:
            # establishing the binding failed half way: nothing may remain bound
            return now == pre and frames == frames0.items
        if prop == "push":
            ok = all(len(now[i]) == len(pre[i]) + 1 and now[i][:-1] == pre[i] and now[i][-1] is new_vals[i] for i in range(n_vars))
            return ok and len(frames) == 2 and frames[-1] == frozenset(vars_)
        # push then pop restores everything
        I.call(pop, [])
        return stacks() == pre and tb.fields["_bindings"].items == frames0.items

    return run


REPLAY = r'''
import basilisp.main as _m
_m.init()
from basilisp.lang import runtime as rt, symbol as sym, map as lmap
ns = rt.Namespace.get_or_create(sym.symbol("verif.c11"))
ORDER_WANTED = {order!r}      # position of each Var in the map's iteration order
DYN = {dyn!r}; REJ = {rej!r}
found = False
for attempt in range(400):
    vs = []
    for i, d in enumerate(DYN):
        v = rt.Var(ns, sym.symbol(f"v{{attempt}}_{{i}}"), dynamic=d)
        v.bind_root(("root", i))
        if REJ[i]:
            v.set_validator(lambda x, i=i: not (isinstance(x, tuple) and x[0] == "new"))
        vs.append(v)
    m = lmap.map({{v: ("new", i) for i, v in enumerate(vs)}})
    order = [vs.index(k) for k, _ in m.items()]
    if order == ORDER_WANTED:
        found = True
        break
if not found:
    print("HOLDS (could not realise the model's iteration order in 400 attempts)"); sys.exit(0)
before = [v.value for v in vs]
try:
    rt.push_thread_bindings(m)
    print("HOLDS (push succeeded)"); rt.pop_thread_bindings(); sys.exit(0)
except Exception as e:
    after = [v.value for v in vs]
    if after != before:
        print("REPRODUCED: push_thread_bindings raised", type(e).__name__, "but left bindings behind:", before, "->", after,
              "iteration order", order, "dynamic", DYN, "rejects", REJ)
        sys.exit(1)
print("HOLDS")
'''


HIST = r'''
_ns = _get_ns("verif.c11")
lisp_eval("(def ^:dynamic *a* :a0) (def ^:dynamic *b* :b0) (def ^:dynamic *c* :c0) (def plain :p0)"
          " (def ^:dynamic *v* 0) (set-validator! (var *v*) (fn [x] (and (number? x) (>= x 0))))", "verif.c11")
READ = lisp_eval("(fn [] [*a* *b* *c* plain *v*])", "verif.c11")
class Stop(Exception):
    pass
# each program is one nested form; holes are filled with solver-chosen values; `probe` records what is visible at that point
PROGRAMS = {
  "nested-binding":      "(fn [x y z probe] (binding [*a* x] (probe 1) (binding [*a* y *b* z] (probe 2)) (probe 3)))",
  "set!-innermost":      "(fn [x y z probe] (binding [*a* x] (binding [*a* y] (set! *a* z) (probe 1)) (probe 2)))",
  "exception-unwinds":   "(fn [x y z probe] (try (binding [*a* x *b* y] (probe 1) (throw (python/ValueError \\"boom\\"))) (catch python/ValueError _ (probe 2))))",
  "failed-binding-nondynamic": "(fn [x y z probe] (try (binding [*a* x *b* y plain z] (probe 1)) (catch python/Exception _ (probe 2))))",
  "failed-binding-validator":  "(fn [x y z probe] (try (binding [*a* x *v* -1 *b* y] (probe 1)) (catch python/Exception _ (probe 2))))",
  "with-bindings*":      "(fn [x y z probe] (with-bindings* {(var *a*) x (var *c*) y} (fn [] (probe 1))) (probe 2))",
  "bound-fn-after-exit": "(fn [x y z probe] (let [f (binding [*a* x *b* y] (bound-fn* (fn [] (probe 1))))] (probe 2) (binding [*b* z] (f) (probe 3)) (probe 4)))",
  "set!-then-leave":     "(fn [x y z probe] (binding [*a* x *b* y] (set! *b* z) (probe 1)) (probe 2))",
  "rebind-same-value-set!": "(fn [x y z probe] (binding [*a* x *b* y] (binding [*a* x] (set! *a* z) (probe 1)) (probe 2)))",
  "with-bindings-same-value-set!": "(fn [x y z probe] (binding [*a* x] (with-bindings* {(var *a*) x} (fn [] (set! *a* z) (probe 1))) (probe 2)))",
  "bound-fn-on-creating-thread-set!": "(fn [x y z probe] (binding [*a* x *b* y] ((bound-fn* (fn [] (set! *b* z) (probe 1)))) (probe 2)))",
  # a capture of the thread's bindings (bound-fn*, get-thread-bindings) taken before and after a set! in the same frame
  "bound-fn-before-and-after-set!": "(fn [x y z probe] (binding [*a* x *b* y] (let [f1 (bound-fn* (fn [] (probe 1)))] (set! *a* z) (let [f2 (bound-fn* (fn [] (probe 2)))] (f1) (f2) (probe 3)))))",
  "get-thread-bindings-around-set!": "(fn [x y z probe] (binding [*a* x] (let [m1 (get-thread-bindings)] (set! *a* y) (let [m2 (get-thread-bindings)] (set! *a* z) (with-bindings* m2 (fn [] (probe 1))) (with-bindings* m1 (fn [] (probe 2))) (with-bindings* (get-thread-bindings) (fn [] (probe 3))) (probe 4)))))",
  "capture-set!-pop-capture": "(fn [x y z probe] (binding [*a* x] (get-thread-bindings) (binding [*b* y] (set! *a* z) ((bound-fn* (fn [] (probe 1))))) ((bound-fn* (fn [] (probe 2)))) (probe 3)))",
}
def expected(name, x, y, z):
    A0, B0, C0, P0, V0 = kw.keyword("a0"), kw.keyword("b0"), kw.keyword("c0"), kw.keyword("p0"), 0
    base = [A0, B0, C0, P0, V0]
    def w(**kv):
        r = list(base)
        for k, v in kv.items():
            r["abc".index(k)] = v
        return r
    return {
      "nested-binding": [(1, w(a=x)), (2, w(a=y, b=z)), (3, w(a=x))],
      "set!-innermost": [(1, w(a=z)), (2, w(a=x))],
      "exception-unwinds": [(1, w(a=x, b=y)), (2, base)],
      "failed-binding-nondynamic": [(2, base)],
      "failed-binding-validator": [(2, base)],
      "with-bindings*": [(1, w(a=x, c=y)), (2, base)],
      "bound-fn-after-exit": [(2, base), (1, w(a=x, b=y)), (3, w(b=z)), (4, base)],
      "set!-then-leave": [(1, w(a=x, b=z)), (2, base)],
      "rebind-same-value-set!": [(1, w(a=z, b=y)), (2, w(a=x, b=y))],
      "with-bindings-same-value-set!": [(1, w(a=z)), (2, w(a=x))],
      "bound-fn-on-creating-thread-set!": [(1, w(a=x, b=z)), (2, w(a=x, b=y))],
      "bound-fn-before-and-after-set!": [(1, w(a=x, b=y)), (2, w(a=z, b=y)), (3, w(a=z, b=y))],
      "get-thread-bindings-around-set!": [(1, w(a=y)), (2, w(a=x)), (3, w(a=z)), (4, w(a=z))],
      "capture-set!-pop-capture": [(1, w(a=z, b=y)), (2, w(a=z)), (3, w(a=z))],
    }[name]
def run_program(name, x, y, z):
    seen = []
    def probe(i):
        seen.append((i, list(READ())))
    F_PROG(x, y, z, probe)
    after = list(READ())
    return seen, after
def DIAG(**k):
    try:
        return {"observed": repr(run_program(NAME, k["x"], k["y"], k["z"])), "expected": repr(expected(NAME, k["x"], k["y"], k["z"]))}
    except Exception as e:
        return {"error": repr(e)}
'''


def history_specs(timeout):
    from ..chx.driver import Spec
    from ..chx.lisp import harness
    import re
    names = re.findall(r'^  "([^"]+)":', HIST, flags=re.M)
    names = sorted(set(names), key=names.index)[:14]
    out = []
    for nm in names:
        body = '''    seen, after = run_program(NAME, x, y, z)
    base = [kw.keyword("a0"), kw.keyword("b0"), kw.keyword("c0"), kw.keyword("p0"), 0]
    # inside: what the nesting prescribes; after the outermost form has been left: exactly what was visible before it
    return seen == expected(NAME, x, y, z) and after == base'''
        out.append(Spec(f"binding-forms/{nm}", harness("x: int, y: int, z: int", body, module_code=HIST.replace("\\\\", "\\") + f"\nNAME = {nm!r}\nF_PROG = lisp_eval(PROGRAMS[NAME], \"verif.c11\")\n", warm=[(1, 2, 3)]),
                        timeout=timeout, bound="bound values are symbolic ints; the nesting shape is one of 8 programs", meta={"kind": "binding-forms", "program": nm}))
    return out


THREADS_SCRIPT = r'''
import threading, importlib
import basilisp.main as _m
_m.init()
from basilisp.lang import compiler as cc, reader as rd, runtime as rt, symbol as sym
ns = rt.Namespace.get_or_create(sym.symbol("verif.c11t")); ns.refer_all(rt.Namespace.get_or_create(rt.CORE_NS_SYM))
sys.modules.setdefault(ns.module.__name__, ns.module)
def ev(src):
    with rt.ns_bindings("verif.c11t"):
        ctx = cc.CompilerContext("<t>"); last = None
        for f in rd.read_str(src, resolver=rt.resolve_alias): last = cc.compile_and_exec_form(f, ctx, ns)
        return last
ev("(def ^:dynamic *d* :root)")
bad = []
# 1. a binding made in one thread is invisible in another, at every point of its lifetime
inside, go = threading.Event(), threading.Event()
seen = []
def other():
    inside.wait(5); seen.append(ev("*d*")); go.set()
t = threading.Thread(target=other); t.start()
hold = ev("(fn [inside go] (binding [*d* :bound] (.set inside) (.wait go 5) (set! *d* :changed) *d*))")
r = hold(inside, go); t.join(5)
if seen != [ev(":root")] or r != ev(":changed") or ev("*d*") != ev(":root"):
    bad.append(("thread-isolation", seen, r))
# 2. future, pmap and bound-fn run with the bindings in effect where they were created, and do not leak back
r = ev("(binding [*d* :conveyed] [(deref (future *d*)) (vec (pmap (fn [_] *d*) [1 2])) (let [f (bound-fn [] *d*) p (promise)] (.start (threading/Thread ** :target (fn [] (deliver p (f))))) (deref p 5 :timeout))])") if False else None
ev("(import threading)")
r = ev("(binding [*d* :conveyed] [(deref (future *d*)) (vec (pmap (fn [_] *d*) [1 2])) (let [f (bound-fn [] *d*) p (promise)] (doto (threading/Thread ** :target (fn [] (deliver p (f)))) (.start)) (deref p 5 :timeout))])")
want = ev("[:conveyed [:conveyed :conveyed] :conveyed]")
if r != want:
    bad.append(("conveyance", r))
r2 = ev("[(deref (future *d*)) *d*]")
if r2 != ev("[:root :root]"):
    bad.append(("leak-after-conveyance", r2))
if bad:
    print("REPRODUCED: dynamic bindings across threads:", bad); sys.exit(1)
print("HOLDS")
'''


REPLAY_SUCCESS = r'''
import basilisp.main as _m
_m.init()
from basilisp.lang import runtime as rt, symbol as sym, map as lmap
ns = rt.Namespace.get_or_create(sym.symbol("verif.c11"))
SAME = {same!r}          # per Var: is the new value the very object already bound on top of its stack?
DEPTH = {depth!r}
vs, tops = [], []
for i, d in enumerate(DEPTH):
    v = rt.Var(ns, sym.symbol(f"ok_{{i}}"), dynamic=True)
    v.bind_root(("root", i))
    top = None
    for j in range(d):
        top = ("prior", i, j)
        rt.push_thread_bindings(lmap.map({{v: top}}))
    vs.append(v); tops.append(top)
news = [tops[i] if (SAME[i] and DEPTH[i] > 0) else ("new", i) for i in range(len(vs))]
depth_before = [len(v._tl.bindings) for v in vs]
rt.push_thread_bindings(lmap.map(dict(zip(vs, news))))
depth_after = [len(v._tl.bindings) for v in vs]
bad = [i for i in range(len(vs)) if depth_after[i] != depth_before[i] + 1]
for v in vs:
    v.set_value("set-inside")
rt.pop_thread_bindings()
after = [v.value for v in vs]
want = [tops[i] if DEPTH[i] > 0 else ("root", i) for i in range(len(vs))]
if bad or after != want:
    print("REPRODUCED: a successful push did not add exactly one binding per named Var (Vars", bad, "); after set! inside and pop the Vars read",
          after, "instead of", want)
    sys.exit(1)
print("HOLDS")
'''


def run(rep, tier, seed):
    from ..chx.flow import run_specs
    only = getattr(rep, "only", None)
    if only is None or "binding-forms" in only:
        rep.encoded_lisp("src/basilisp/core.lpy", ["binding", "with-bindings*", "bound-fn*", "set!", "push-thread-bindings", "pop-thread-bindings"],
                         "compiled from source, executed under CrossHair with symbolic bound values")
        run_specs(rep, history_specs(60 if tier == "quick" else 300), lambda s_, c: {"kind": "binding-forms", "program": s_.meta["program"]},
                  lambda s_, c: f"{s_.name}: {c}")
    if only is None or "threads" in only:
        import time as _t
        t0 = _t.time()
        path = env.write_replay(rep.prop, "threads", THREADS_SCRIPT)
        ok, line = env.replay_reproduces(path, timeout=300)
        r_ = Result("threads/isolation+conveyance (concrete run)", INCONCLUSIVE, engine="concrete run (not solver-decided)", secs=_t.time() - t0,
                    bound="2 threads; binding visible only in its thread; future / pmap / bound-fn convey; no leak afterwards")
        if ok:
            r_.verdict, r_.replay, r_.detail = REFUTED, path, line[:300]
            rep.classify_refutation(r_, {"kind": "threads"}, line[:200])
        elif "holds" in line:
            r_.verdict, r_.detail = PROVED, "one concrete run"
        else:
            r_.detail = line[:300]
        rep.add(r_)
    rep.encoded(RT, ["push_thread_bindings", "pop_thread_bindings", "Var.push_bindings", "Var.pop_bindings", "Var.dynamic",
                     "_ThreadBindings.push_bindings", "_ThreadBindings.pop_bindings"], "PySym (AST interpreted, symbolic map iteration order)")
    rep.encoded(REF, ["RefBase._validate"], "PySym (validator verdict symbolic)")
    quick = tier == "quick"
    jobs = []
    for n in ([1, 2] if quick else [1, 2, 3]):
        for prop in ("push", "push-pop"):
            if only is None or "kernel" in only:
                jobs.append((n, prop))
    results = run_parallel([(lambda n=n, p=p: check(scenario(n, p), mk_interp, timeout_s=300, max_paths=40000)) for n, p in jobs])
    for (n, prop), r in zip(jobs, results):
        rep.solver_s += r["stats"]["solver_s"]
        rep.queries += r["stats"]["queries"]
        name = f"kernel/{prop}/{n}-vars"
        res = Result(name, INCONCLUSIVE, engine="B:pysym+z3", secs=r["secs"], stats=r["stats"],
                     bound=f"{n} Vars in the binding map, every iteration order, prior stacks of depth 0..2, each Var dynamic or not, "
                           "each validator accepting or rejecting")
        if r["status"] == "proved":
            res.verdict, res.detail = PROVED, f"all {r['stats']['paths']} paths"
        elif r["status"] == "refuted":
            cex = r["cex"]
            order = r.get("extra", {}).get("iteration_order", list(range(n)))
            dyn = [bool(cex.get(f"var{i}_dynamic")) for i in range(n)]
            rej = [bool(cex.get(f"var{i}_validator_rejects")) for i in range(n)]
            res.witness = {"iteration_order": order, "dynamic": dyn, "validator_rejects": rej, "why": r["message"]}
            body = REPLAY.format(order=order, dyn=dyn, rej=rej)
            path = env.write_replay(rep.prop, name, body)
            ok, line = env.replay_reproduces(path)
            if not ok and all(dyn) and not any(rej):
                # the push succeeds in the model: replay the success path (incl. re-binding the identical object)
                depth, same = [], []
                for i in range(n):
                    ks = sorted(k for k in cex if k.startswith(f"var{i}_prior"))
                    depth.append(len(ks))
                    same.append(bool(ks) and cex.get(f"new{i}") == cex.get(ks[-1]))
                path = env.write_replay(rep.prop, name + "_success", REPLAY_SUCCESS.format(same=same, depth=depth))
                ok, line = env.replay_reproduces(path)
                res.witness["new_value_is_current_binding"] = same
            res.reproduced = ok
            if ok:
                res.verdict, res.replay, res.detail = REFUTED, path, line[:300]
                rep.classify_refutation(res, {"kind": "failed-push-leaves-bindings"}, line[:200])
            else:
                rep.nonrepro += 1
                res.detail = "model not reproduced: " + line[:200]
        elif r["status"] == "error":
            raise env.HarnessError(f"PySym crashed on {name}: {r['message']}")
        else:
            res.detail = r["message"][:300]
        rep.add(res)
    rep.bounds = {"vars_per_binding_form": "1-2 (quick) / 1-3 (thorough)", "iteration order": "all permutations (solver choice)",
                  "prior stack depth": "0..2 per Var"}
    rep.outside = ["cross-thread visibility and conveyance under *all* interleavings (threading.local and executors are environment): "
                   "one concrete two-thread run is executed instead and labelled as such"]
    rep.assumptions += ["lset.set / the frame stack vector behave as a set / stack", "validator verdict is an arbitrary boolean per Var"]
    rep.trusted += ["z3 5.1.0", "vlib/pysym"]
    rep.extra["explanation"] = ("one push (and push-then-pop) step from an arbitrary valid pre-state; the order in which the binding map is "
                                "iterated is a solver variable, because the real order is address-hash order")
