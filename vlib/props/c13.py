"""C13 — delays run once, promises deliver once, futures yield their body's outcome (BMC + PySym)."""
from __future__ import annotations

import json
import time
from typing import Any, Dict

import z3

from .. import env
from ..env import INCONCLUSIVE, PROVED, REFUTED, Result
from ..pysym import inputs as si
from ..pysym.bmc import System, Values
from ..pysym.cfg import ClassInfo, Model
from ..pysym.interp import ExcVal, Interp, Intrinsic, Obj, PyRaise, Unsupported
from ..pysym.run import check, run_parallel
from . import c12

LEVEL = "model_checking"
NEEDS_CORE = False

DELAY, PROMISE, FUT = "src/basilisp/lang/delay.py", "src/basilisp/lang/promise.py", "src/basilisp/lang/futures.py"
REC = {"_DelayState": ["f", "value", "computed"]}


def delay_system(n_threads, ops, K):
    vals = Values(REC, allow_selfneq=False)
    atom_fields = {"A." + k: v for k, v in c12.FIELDS.items()}
    # Delay may or may not have its own lock (field discovered from the source's __slots__/__init__)
    from ..pysym import loader
    src = loader.source_of(DELAY, "Delay")
    own = {}
    if "_lock" in src:
        own["_lock"] = "lock"
    S = System(vals, {**atom_fields, **own}, watched_field="A._state", max_trans=n_threads * 2 + 1)
    amodel = Model(fields={**c12.FIELDS, "_watches": "watches"}, records=REC, n_watches=0)
    dmodel = Model(fields={"_state": "sub", **own}, records=REC, sub_objects={"_state": (c12.atom_class(), amodel, "A.")})
    dcls = ClassInfo(DELAY, "Delay", [])
    for t in range(n_threads):
        S.add_thread(dcls, dmodel, [(op, []) for op in ops[t]])
    cs = S.unroll(K)
    V = vals.V
    body = S.const("body_fn")
    cs.append(S.const("init_A._state") == vals.mk("_DelayState", {"f": body, "value": V.nil, "computed": vals.b(False)}))
    cs.append(S.const("init_A._validator") == V.nil)
    return vals, S, cs


def promise_system(progs, K):
    vals = Values({}, allow_selfneq=False)
    fields = {"_condition": "cond", "_is_delivered": "val", "_value": "val"}
    S = System(vals, dict(fields), watched_field="_value", max_trans=len(progs) * 2 + 1)
    model = Model(fields=dict(fields))
    cls = ClassInfo(PROMISE, "Promise", [])
    V = vals.V
    args_of = {}
    for t, prog in enumerate(progs):
        ops = []
        for j, op in enumerate(prog):
            if op == "deliver":
                a = [S.const(f"dv_{t}_{j}")]
            elif op == "deref_timed":
                a = [S.const(f"to_{t}_{j}"), S.const(f"tv_{t}_{j}")]
            else:
                a = []
            args_of[(t, j)] = a
            ops.append(("deref" if op == "deref_timed" else op, [("z3", x) for x in a]))
        S.add_thread(cls, model, ops)
    cs = S.unroll(K)
    cs.append(S.const("init__is_delivered") == vals.b(False))
    cs.append(S.const("init__value") == V.nil)
    for (t, j), a in args_of.items():
        if progs[t][j] == "deref_timed":
            cs.append(a[0] != V.nil)  # a timeout is given
    return vals, S, cs, args_of


def delay_obligation(name, n, ops, K, kind):
    t0 = time.time()
    out: Dict[str, Any] = {"name": name, "status": "unknown", "message": "", "kind": kind, "K": K}
    try:
        vals, S, cs = delay_system(n, ops, K)
        V = vals.V
        s = z3.Solver()
        s.set("timeout", 300000)
        s.add(*cs)
        final = S.st[K]
        no_throw = z3.And(*[z3.Not(vals.app0_throws(z3.IntVal(c))) for c in range(0, 16)])
        if kind == "reach":
            s.add(S.all_done(), no_throw)
            s.add(*[final[f"status:t{t}op{j}"] == 1 for t in range(n) for j in range(len(ops[t]))])
        elif kind == "completes":
            s.add(S.not_finished_but_running())
        elif kind == "deadlock":
            s.add(S.deadlock())
        elif kind == "one-at-a-time":
            s.add(final["g_maxrunning"] > 1)
        elif kind == "never-after-return":
            s.add(final["g_callafter"] > 0)
        elif kind == "same-value":
            s.add(S.all_done())
            rs = [(final[f"status:t{t}op{j}"], final[f"result:t{t}op{j}"]) for t in range(n) for j in range(len(ops[t]))
                  if ops[t][j] == "deref"]
            s.add(z3.Or(*[z3.And(a[0] == 1, b[0] == 1, a[1] != b[1]) for i, a in enumerate(rs) for b in rs[i + 1:]]))
        elif kind == "realized-monotone":
            # a thread observing is_realized twice never sees true then false
            s.add(S.all_done())
            alts = []
            for t in range(n):
                idx = [j for j, op in enumerate(ops[t]) if op == "is_realized"]
                for a, b in zip(idx, idx[1:]):
                    alts.append(z3.And(vals.truthy(final[f"result:t{t}op{a}"]), z3.Not(vals.truthy(final[f"result:t{t}op{b}"]))))
            s.add(z3.Or(*alts) if alts else z3.BoolVal(False))
        tq = time.time()
        r = s.check()
        out["solver_s"] = time.time() - tq
        out["status"] = {"sat": "sat", "unsat": "unsat"}.get(str(r), "unknown")
        out["n_instr"] = [len(th.ins) for th in S.threads]
        if r == z3.sat:
            m = s.model()
            out["trace"] = S.trace(m)
            out["model"] = {"body_calls": str(m.eval(final["g_ncalls"], model_completion=True)),
                            "max_concurrent": str(m.eval(final["g_maxrunning"], model_completion=True)),
                            "results": [str(m.eval(final[f"result:t{t}op{j}"], model_completion=True))
                                        for t in range(n) for j in range(len(ops[t]))]}
    except Unsupported as e:
        out["message"] = f"unsupported: {e}"
    out["secs"] = time.time() - t0
    return out


def promise_obligation(name, progs, K, kind):
    t0 = time.time()
    out: Dict[str, Any] = {"name": name, "status": "unknown", "message": "", "kind": kind, "K": K}
    try:
        vals, S, cs, args_of = promise_system(progs, K)
        V = vals.V
        s = z3.Solver()
        s.set("timeout", 300000)
        s.add(*cs)
        final = S.st[K]
        delivers = [(t, j) for t, p in enumerate(progs) for j, op in enumerate(p) if op == "deliver"]
        derefs = [(t, j) for t, p in enumerate(progs) for j, op in enumerate(p) if op == "deref"]
        timed = [(t, j) for t, p in enumerate(progs) for j, op in enumerate(p) if op == "deref_timed"]
        if kind == "reach":
            s.add(S.all_done())
        elif kind == "completes":
            s.add(S.not_finished_but_running())
        elif kind == "deadlock":
            s.add(S.deadlock())
        elif kind == "first-deliver-wins":
            # exactly one store to the value ever happens (later delivers change nothing), the final value is
            # one of the delivered values, and the flag never goes back
            bad = [final["g_ntrans"] > 1]
            bad += [z3.And(vals.truthy(S.st[k]["F:_is_delivered"]), z3.Not(vals.truthy(S.st[k + 1]["F:_is_delivered"]))) for k in range(K)]
            bad.append(z3.And(S.all_done(), z3.Not(z3.Or(*[final["F:_value"] == args_of[d][0] for d in delivers]))))
            bad.append(z3.And(S.all_done(), z3.Not(vals.truthy(final["F:_is_delivered"]))))
            s.add(z3.Or(*bad))
        elif kind == "deref-returns-delivered":
            s.add(S.all_done())
            s.add(z3.Or(*[z3.Or(final[f"status:t{t}op{j}"] != 1, final[f"result:t{t}op{j}"] != final["F:_value"]) for (t, j) in derefs]))
        elif kind == "timeout-only-if-undelivered":
            # the timed deref returns either the delivered value or its timeout value; if it returns the timeout
            # value (chosen distinct from every delivered value) then the promise was undelivered when it woke up
            s.add(S.all_done())
            alts = []
            for (t, j) in timed:
                res = final[f"result:t{t}op{j}"]
                tv = args_of[(t, j)][1]
                s.add(*[tv != args_of[d][0] for d in delivers], tv != V.nil)
                alts.append(z3.And(res != tv, res != final["F:_value"]))
                # woke while delivered yet returned the timeout value
                th = S.threads[t]
                wake = [i for i, ins in enumerate(th.ins) if ins.kind == "wait_wake"]
                first = [i for i, ins in enumerate(th.ins) if ins.kind == "wait_for"]
                for k in range(K):
                    at = z3.And(S.sched[k] == t, z3.Or(*[S.st[k][f"pc{t}"] == i for i in wake + first]))
                    alts.append(z3.And(at, vals.truthy(S.st[k]["F:_is_delivered"]), res == tv))
            s.add(z3.Or(*alts))
        elif kind == "realized-monotone":
            s.add(S.all_done())
            alts = []
            for t, p in enumerate(progs):
                idx = [j for j, op in enumerate(p) if op == "is_realized"]
                for a, b in zip(idx, idx[1:]):
                    alts.append(z3.And(vals.truthy(final[f"result:t{t}op{a}"]), z3.Not(vals.truthy(final[f"result:t{t}op{b}"]))))
            s.add(z3.Or(*alts) if alts else z3.BoolVal(False))
        tq = time.time()
        r = s.check()
        out["solver_s"] = time.time() - tq
        out["status"] = {"sat": "sat", "unsat": "unsat"}.get(str(r), "unknown")
        out["n_instr"] = [len(th.ins) for th in S.threads]
        if r == z3.sat:
            m = s.model()
            out["trace"] = S.trace(m)
            out["model"] = {"final_value": str(m.eval(final["F:_value"], model_completion=True)),
                            "results": {f"t{t}op{j}": str(m.eval(final[f"result:t{t}op{j}"], model_completion=True))
                                        for t, p in enumerate(progs) for j in range(len(p))}}
    except Unsupported as e:
        out["message"] = f"unsupported: {e}"
    out["secs"] = time.time() - t0
    return out


# ------------------------------------------------------------------ replays on the real classes

GATE = r'''
import json, threading, time, sys
class Gate:
    def __init__(self, files, lines):
        self.cv = threading.Condition(); self.turn = None; self.waiting = {}; self.done = set(); self.free_run = False
        self.files = files; self.lines = lines
    def tracer(self, tid):
        def local(frame, event, arg):
            if event == "line" and not self.free_run and (self.files.get(frame.f_code.co_filename), frame.f_lineno) in self.lines:
                with self.cv:
                    self.waiting[tid] = frame.f_lineno; self.cv.notify_all()
                    while self.turn != tid and not self.free_run:
                        self.cv.wait(0.02)
                    self.turn = None; self.waiting.pop(tid, None)
            return local
        def glob(frame, event, arg):
            return local if frame.f_code.co_filename in self.files else None
        return glob
    def drive(self, order, ths):
        desync = 0
        for tid in order:
            deadline = time.time() + 1.0
            with self.cv:
                while tid not in self.waiting and tid not in self.done and time.time() < deadline:
                    self.cv.wait(0.02)
                if tid in self.done or tid not in self.waiting:
                    desync += 1; continue
                self.turn = tid; self.cv.notify_all()
                while self.turn == tid and time.time() < deadline:
                    self.cv.wait(0.02)
        self.free_run = True
        with self.cv: self.cv.notify_all()
        for t in ths: t.join(10)
        return desync
'''

REPLAY_DELAY = GATE + r'''
from basilisp.lang import delay as _delay, atom as _atom, reference as _ref
ORDER = json.loads(__ORDER__); LINES = set(map(tuple, json.loads(__LINES__))); N = __N__
FILES = {_delay.__file__: "delay.py", _atom.__file__: "atom.py", _ref.__file__: "reference.py"}
calls = []; running = [0]; maxrun = [0]; after = [0]; returned = [0]
def body():
    if returned[0]: after[0] += 1
    running[0] += 1; maxrun[0] = max(maxrun[0], running[0])
    calls.append(threading.get_ident())
    v = object()
    running[0] -= 1; returned[0] += 1
    return v
d = _delay.Delay(body)
gate = Gate(FILES, LINES); results = {}
def worker(tid):
    sys.settrace(gate.tracer(tid))
    try: results[tid] = d.deref()
    finally:
        sys.settrace(None)
        with gate.cv: gate.done.add(tid); gate.cv.notify_all()
ths = [threading.Thread(target=worker, args=(t,), daemon=True) for t in range(N)]
for t in ths: t.start()
desync = gate.drive(ORDER, ths)
vals = list(results.values())
if len(calls) > 1 or any(v is not vals[0] for v in vals):
    print("REPRODUCED: delay body ran", len(calls), "times under the model's schedule; distinct deref results:",
          len(set(map(id, vals))), "desync=", desync); sys.exit(1)
print("HOLDS calls=", len(calls), "desync=", desync)
'''


from ..pysym.bmc import grants, shared_lines  # noqa: E402


# ------------------------------------------------------------------ Future: sequential kernel in PySym


def future_scenario(which):
    def scenario(I: Interp, path):
        mod = I.module(FUT)
        F = I.global_lookup(mod, "Future")
        outcome = path.choose(3, "outcome")  # 0 value, 1 raises body exception, 2 TimeoutError
        val = si.sym_val(path, "body_value")
        tv = si.sym_val(path, "timeout_val")
        path.assume(val.t != tv.t)
        calls = []

        def result(I_, timeout=None):
            calls.append(timeout)
            if outcome == 0:
                return val
            if outcome == 1:
                raise PyRaise(ExcVal("ValueError", ("body raised",)))
            raise PyRaise(ExcVal("TimeoutError"))

        inner = Obj(I.external_class("_Future"), {})
        I.method_hooks[("_Future", "result")] = lambda I_, o, timeout=None: result(I_, timeout)
        I.method_hooks[("_Future", "done")] = lambda I_, o: outcome != 2
        fut = Obj(F, {"_future": inner})
        I.intrinsics["concurrent.futures.TimeoutError"] = I.intrinsics["TimeoutError"]
        if which == "deref":
            try:
                r = I.call(I.getattr(fut, "deref"), [1, tv])
            except PyRaise as e:
                return outcome == 1 and e.exc.cls == "ValueError"
            if outcome == 0:
                return r is val
            if outcome == 2:
                return r is tv
            return False
        if which == "realized":
            a = I.getattr(fut, "is_realized")
            return a == (outcome != 2)
        raise ValueError(which)

    return scenario


def run(rep, tier, seed):
    rep.encoded(DELAY, ["Delay.deref", "Delay.is_realized"], "CFG + BMC (Atom.swap inlined, body = effectful call with ghost counters)")
    rep.encoded(PROMISE, ["Promise.deliver", "Promise.deref", "Promise.is_realized"], "CFG + BMC (Condition model)")
    rep.encoded(FUT, ["Future.deref", "Future.is_realized", "Future.done"], "PySym over a contract stub of concurrent.futures.Future")
    quick = tier == "quick"
    jobs = []
    # ---- Delay
    dcfgs = [(2, [["deref"], ["deref"]])] + ([] if quick else [(3, [["deref"], ["deref"], ["deref"]])])
    for n, ops in dcfgs:
        vals, S, _ = delay_system(n, ops, 1)
        per = [len(S.cut_points(th)) for th in S.threads]
        K = sum(p * n for p in per) + 2
        for kind in ("reach", "completes", "deadlock", "one-at-a-time", "never-after-return", "same-value"):
            jobs.append(("delay", f"delay/{kind}/{n}-threads", (n, ops, K, kind)))
    vals, S, _ = delay_system(2, [["is_realized", "is_realized"], ["deref"]], 1)
    K = sum(len(S.cut_points(th)) for th in S.threads) * 2
    jobs.append(("delay", "delay/realized-monotone", (2, [["is_realized", "is_realized"], ["deref"]], K, "realized-monotone")))
    # ---- Promise
    pcfgs = [[["deliver"], ["deliver"], ["deref"]], [["deliver"], ["deref_timed"]], [["deliver"], ["is_realized", "is_realized"]]]
    if not quick:
        pcfgs += [[["deliver"], ["deliver"], ["deref"], ["deref_timed"]], [["deliver", "deliver"], ["deref"], ["deref"]]]
    for progs in pcfgs:
        vals, S, _, _ = promise_system(progs, 1)
        K = sum(len(S.cut_points(th)) for th in S.threads) + 4
        tag = "|".join(",".join(p) for p in progs)
        kinds = ["reach", "completes", "deadlock", "first-deliver-wins"]
        if any("deref" in p for p in progs):
            kinds.append("deref-returns-delivered")
        if any("deref_timed" in p for p in progs):
            kinds.append("timeout-only-if-undelivered")
        if any("is_realized" in p for p in progs):
            kinds.append("realized-monotone")
        for kind in kinds:
            jobs.append(("promise", f"promise/{kind}/{tag}", (progs, K, kind)))
    only = getattr(rep, "only", None)
    if only:
        jobs = [j for j in jobs if only in j[1]]

    def thunk(j):
        fam, name, args = j
        return (lambda: delay_obligation(name, *args)) if fam == "delay" else (lambda: promise_obligation(name, *args))

    results = run_parallel([thunk(j) for j in jobs], procs=16)
    validated = 0
    for (fam, name, args), r in zip(jobs, results):
        rep.solver_s += r.get("solver_s", 0.0)
        rep.queries += 1
        kind = r["kind"]
        res = Result(name, INCONCLUSIVE, bound=f"K={r['K']} macro-steps, all schedules; {args[:2] if fam == 'delay' else args[0]}",
                     engine="B:cfg+bmc(z3)", secs=r["secs"], stats={"solver_s": round(r.get("solver_s", 0), 2)})
        st = r["status"]
        if kind == "reach":
            if st == "sat":
                res.verdict, res.detail = PROVED, "reachability twin satisfiable (some schedule completes)"
            else:
                res.detail = f"vacuity twin {st}"
        elif st == "unsat":
            res.verdict, res.detail = PROVED, "unsat: holds for every schedule within the bound"
        elif st == "sat":
            res.witness = {"model": r.get("model"), "schedule": [(e["thread"], e["line"]) for e in r["trace"]][:100]}
            if fam == "delay":
                n, ops, K, _ = args
                vals, S, _ = delay_system(n, ops, 1)
                body = (REPLAY_DELAY.replace("__ORDER__", repr(json.dumps(grants(r["trace"])))).replace("__LINES__", repr(json.dumps(shared_lines(S)))).replace("__N__", str(n)))
                path = env.write_replay(rep.prop, name, body)
                ok, line = env.replay_reproduces(path, timeout=120)
                if ok:
                    res.verdict, res.replay, res.detail, res.reproduced = REFUTED, path, line[:300], True
                    rep.classify_refutation(res, {"kind": "delay-body-runs-more-than-once"}, line[:200])
                else:
                    rep.nonrepro += 1
                    res.detail = "model found but not reproduced on the real Delay: " + line[:200]
            else:
                rep.nonrepro += 1
                res.detail = "model found for a Promise obligation; no replay driver for Condition waits: reported as inconclusive"
        else:
            res.detail = r.get("message") or "solver unknown/timeout"
        rep.add(res)
    # ---- Future
    for which in ("deref", "realized"):
        r = check(future_scenario(which), lambda: Interp(), timeout_s=60)
        res = Result(f"future/{which}-outcome-mapping", INCONCLUSIVE, bound="3 outcomes of the wrapped future x opaque values",
                     engine="B:pysym+z3", secs=r["secs"], stats=r["stats"])
        if r["status"] == "proved":
            res.verdict, res.detail = PROVED, "all paths"
        elif r["status"] == "refuted":
            res.verdict, res.witness = REFUTED, r["cex"]
            res.detail = "Future wrapper maps an outcome wrongly: " + r["message"]
            path = env.write_replay(rep.prop, res.name, FUT_REPLAY)
            ok, line = env.replay_reproduces(path)
            if ok:
                res.replay = path
                rep.classify_refutation(res, {"kind": "future-outcome"}, line)
            else:
                res.verdict = INCONCLUSIVE
                rep.nonrepro += 1
        else:
            res.detail = r["message"]
        rep.add(res)
    rep.extra["traces_validated_against_impl"] = validated
    rep.bounds = {"delay": "2 (quick) / 3 (thorough) racing derefs", "promise": "2-4 threads: deliver / deref / timed deref / realized?",
                  "granularity": "one shared-state access per step (thread-local statements fused: partial-order reduction)"}
    rep.outside = ["executors (concurrent.futures) are environment", "thread switches inside one statement",
                   "delay bodies that re-enter the same delay"]
    rep.assumptions += ["threading.Condition.wait_for(pred, timeout): returns pred() after waking; wakes when pred holds or, with a timeout, at any time",
                        "RLock / Condition are correct", "the delay body is an arbitrary effectful call that may throw"]
    rep.trusted += ["z3 5.1.0", "vlib/pysym cfg+bmc"]
    rep.extra["explanation"] = "SMT-based BMC with symbolic schedule; see C12"


FUT_REPLAY = r'''
from concurrent.futures import Future as F, TimeoutError as TE
from basilisp.lang.futures import Future
bad = []
f = F(); f.set_result(41); w = Future(f)
if w.deref(1, "tv") != 41 or not w.is_realized: bad.append("value")
f = F(); f.set_exception(ValueError("x")); w = Future(f)
try:
    w.deref(1, "tv"); bad.append("exception swallowed")
except ValueError: pass
f = F(); w = Future(f)
if w.deref(0.01, "tv") != "tv" or w.is_realized: bad.append("timeout")
if bad:
    print("REPRODUCED: Future wrapper wrong for", bad); sys.exit(1)
print("HOLDS")
'''
