"""C16 — the reader is total, classifies incomplete input, reports true locations (Engine A)."""
from __future__ import annotations

from ..chx.driver import Spec
from ..chx.flow import run_specs
from ..chx.lisp import harness

LEVEL = "other"

COMMON = r'''
import io, re, datetime, uuid, fractions, decimal
from basilisp.lang import reader as R
ALLOWED_LEAVES = (type(None), bool, int, float, complex, str, bytes, fractions.Fraction, decimal.Decimal, kw.Keyword, sym.Symbol,
                  datetime.datetime, uuid.UUID, re.Pattern, R.ReaderConditional)
def only_data(x, depth=0):
    """forms may contain nothing but Lisp data"""
    if isinstance(x, ALLOWED_LEAVES):
        return True
    if depth > 12:
        return True
    if isinstance(x, (vec.PersistentVector, llist.PersistentList, lset.PersistentSet, lqueue.PersistentQueue, list, tuple, set, frozenset)):
        return all(only_data(e, depth + 1) for e in x)
    if isinstance(x, (lmap.PersistentMap, dict)):
        return all(only_data(k, depth + 1) and only_data(v, depth + 1) for k, v in x.items())
    if isinstance(x, ISeq):
        return all(only_data(e, depth + 1) for e in seq_list(x))
    return hasattr(x, "_lrepr") and type(x).__module__.startswith("basilisp")  # tagged literals (records) etc.
def classify(s):
    """('ok', forms) | ('eof', err) | ('syntax', err) | ('other', exc)"""
    try:
        with rt.ns_bindings("verif.c16"):
            forms = list(rd.read_str(s))
    except R.UnexpectedEOFError as e:
        return ("eof", e)
    except R.SyntaxError as e:
        return ("syntax", e)
    except Exception as e:
        return ("other", e)
    return ("ok", forms)
def has_loc(e):
    return isinstance(getattr(e, "line", None), int) and isinstance(getattr(e, "col", None), int)
def DIAG(**k):
    s = build(**k) if "build" in globals() else k.get("s")
    c = classify(s)
    return (repr(s), c[0], repr(c[1])[:200])
_get_ns("verif.c16")
'''

ALPHA_DELIM = list("()[]{}\"'`~@^#;:%/.-+01aNMe\\ ") + ["\n", "\r"]
ALPHA_SPAN = ["(", ")", "[", "]", "a", "b", " ", "\n", "\r", "\r\n", "中", "'", "@"]
ALPHA_EOF = list("()[]{}\"'@~^a ") + ["#"]


def build_fn(alpha, n, first=None):
    args = ", ".join(f"i{j}: int" for j in range(n)) + ", n: int"
    pre = [f"0 <= i{j} < {len(alpha)}" for j in range(n)] + [f"0 <= n <= {n}"]
    if first is not None:  # the space is split by first character across obligations (parallelism)
        pre[0] = f"i0 == {first}"
        pre[-1] = f"1 <= n <= {n}"
    code = f"ALPHA = {alpha!r}\ndef build({', '.join('i%d' % j for j in range(n))}, n):\n    return ''.join(ALPHA[i] for i in [{', '.join('i%d' % j for j in range(n))}][:n])\n"
    call = "build(" + ", ".join(f"i{j}" for j in range(n)) + ", n)"
    return args, pre, code, call


def total_unicode_spec(maxlen, timeout):
    body = '''    c = classify(s)
    if c[0] == "ok":
        return all(only_data(f) for f in c[1])
    return c[0] in ("eof", "syntax") and has_loc(c[1])'''
    src = harness("s: str", body, pre=[f"len(s) <= {maxlen}"], module_code=COMMON, warm=[("(a",), ("\\x",), ("#",)])
    return Spec(f"total/unicode/len<={maxlen}", src, timeout=timeout, bound=f"every string of <= {maxlen} code points (all of Unicode)",
                meta={"kind": "total"})


def total_alpha_spec(n, timeout, first=None):
    args, pre, code, call = build_fn(ALPHA_DELIM, n, first)
    body = f'''    s = {call}
    c = classify(s)
    if c[0] == "ok":
        return all(only_data(f) for f in c[1])
    return c[0] in ("eof", "syntax") and has_loc(c[1])'''
    src = harness(args, body, pre=pre, module_code=COMMON + code, warm=[])
    return Spec(f"total/delimiter-alphabet/len<={n}/first={ALPHA_DELIM[first]!r}" if first is not None else f"total/delimiter-alphabet/len<={n}", src, timeout=timeout,
                bound=f"every string of <= {n} characters over the {len(ALPHA_DELIM)}-character delimiter/dispatch alphabet",
                meta={"kind": "total"})


# token alphabets: dispatch macros are several characters long, so character alphabets of length <= 3 never form them
TOKENS_DISPATCH = ["#(", "% ", "#'", "#_", "#{", "{", "}", "(", ")", "[", "]", "#:q{", ":k ", "a ", "1 ", "##Inf ", "##", "#uuid ", '"x" ', "\\a ",
                   "#py ", "^", "@", "~@", "`", "#inst ", '#"', "'", "#?(", "#?@(", ":lpy ", "#b ", "#queue ", "nil ", "#:q", "#::", " "]
TOKENS_COND = ["#?(", "#?@(", ":clj ", ":lpy ", ":default ", "clj ", "1 ", "[", "]", ")", "("]


def total_token_spec(tokens, tag, n, timeout, first):
    args = ", ".join(f"i{j}: int" for j in range(n)) + ", n: int"
    pre = [f"0 <= i{j} < {len(tokens)}" for j in range(n)] + [f"1 <= n <= {n}"]
    pre[0] = f"i0 == {first}"
    code = f"""TOK = {tokens!r}
def pick(i):
    for k in range(len(TOK)):
        if i == k:
            return TOK[k]
    return ""
def build({', '.join('i%d' % j for j in range(n))}, n):
    out = ""
    for j, i in enumerate([{', '.join('i%d' % j for j in range(n))}]):
        if j < n:
            out += pick(i)
    return out
"""
    call = "build(" + ", ".join(f"i{j}" for j in range(n)) + ", n)"
    body = f'''    s = {call}
    c = classify(s)
    if c[0] == "ok":
        return all(only_data(f) for f in c[1])
    return c[0] in ("eof", "syntax") and has_loc(c[1])'''
    src = harness(args, body, pre=pre, module_code=COMMON + code, warm=[])
    return Spec(f"total/{tag}-tokens/len<={n}/first=#{first}:{tokens[first].strip()!r}", src, timeout=timeout,
                bound=f"every string of <= {n} tokens over {[t.strip() for t in tokens]!r}", meta={"kind": "total"})


EOF_CODE = r'''
import itertools
CLOSE = {"(": ")", "[": "]", "{": "}"}
def closers(s):
    """closing brackets still owed by a trivial scan (strings skipped)"""
    st, i, in_str = [], 0, False
    for ch in s:
        if in_str:
            if ch == '"':
                in_str = False
        elif ch == '"':
            in_str = True
        elif ch in CLOSE:
            st.append(CLOSE[ch])
        elif ch in ")]}" and st and st[-1] == ch:
            st.pop()
    return ('"' if in_str else ""), "".join(reversed(st))
def completions(s):
    q, cl = closers(s)
    heads = ["", "a", " a", "a a", " a a", "a a a", "{}", " {} a", "a {} a"]
    for h in heads:
        yield q + h + cl
        yield q + h + " a" + cl
        yield q + " " + h + cl + " a"
def can_complete(s):
    """EOF means the reader was waiting for more input: some continuation changes the verdict"""
    for t in completions(s):
        if classify(s + t)[0] != "eof":
            return True
    for L in range(1, 4):
        for t in itertools.product('a")]}', repeat=L):
            if classify(s + "".join(t))[0] != "eof":
                return True
    return False
def stays_malformed(s):
    """complete-but-malformed text: no continuation that starts a *new* token repairs it"""
    for t in completions(s):
        if t and not (t[0].isalnum()) and classify(s + t)[0] == "ok":
            return False
    return True
'''


def eof_spec(n, timeout, first=None):
    args, pre, code, call = build_fn(ALPHA_EOF, n, first)
    body = f'''    s = {call}
    c = classify(s)
    if c[0] == "eof":
        # "a form is still owed": the verdict depends on what follows
        return can_complete(s)
    if c[0] == "syntax":
        # complete-but-malformed text is not reported as EOF, and no continuation repairs it
        return stays_malformed(s)
    return c[0] == "ok"'''
    src = harness(args, body, pre=pre, module_code=COMMON + EOF_CODE + code, warm=[])
    return Spec(f"eof-classification/len<={n}/first={ALPHA_EOF[first]!r}" if first is not None else f"eof-classification/len<={n}", src, timeout=timeout,
                bound=f"every string of <= {n} characters over {''.join(ALPHA_EOF)!r}; continuations: bracket-stack completions, then brute force up to 3 extra characters",
                meta={"kind": "eof"})


SPAN_CODE = r'''
def line_starts(s):
    """offsets at which each line starts (LF, CRLF and lone CR all end a line)"""
    starts, i = [0], 0
    while i < len(s):
        if s[i] == "\n":
            starts.append(i + 1)
        elif s[i] == "\r" and not (i + 1 < len(s) and s[i + 1] == "\n"):
            starts.append(i + 1)
        i += 1
    return starts
def offset(s, line, col):
    st = line_starts(s)
    if line - 1 >= len(st):
        return None
    return st[line - 1] + col
def spans_ok(s, form):
    m = getattr(form, "meta", None)
    if m is not None:
        line, col = m.val_at(R.READER_LINE_KW), m.val_at(R.READER_COL_KW)
        el, ec = m.val_at(R.READER_END_LINE_KW), m.val_at(R.READER_END_COL_KW)
        if line is not None:
            a, b = offset(s, line, col), offset(s, el, ec)
            if a is None or b is None or not (0 <= a <= b <= len(s)):
                return False
            c = classify(s[a:b])
            if c[0] != "ok" or len(c[1]) != 1 or c[1][0] != form:
                return False
    if isinstance(form, (vec.PersistentVector, llist.PersistentList)):
        return all(spans_ok(s, e) for e in form)
    return True
'''


def span_spec(n, timeout, first=None):
    args, pre, code, call = build_fn(ALPHA_SPAN, n, first)
    body = f'''    s = {call}
    c = classify(s)
    if c[0] != "ok":
        return True
    return all(spans_ok(s, f) for f in c[1])'''
    src = harness(args, body, pre=pre, module_code=COMMON + SPAN_CODE + code, warm=[])
    return Spec(f"spans/len<={n}/first={ALPHA_SPAN[first]!r}" if first is not None else f"spans/len<={n}", src, timeout=timeout,
                bound=f"every string of <= {n} tokens over {ALPHA_SPAN!r}", meta={"kind": "span"})


NL_CODE = r'''
def render(tokens, nl):
    return "".join(nl if t == "NL" else t for t in tokens)
def summary(s):
    c = classify(s)
    return (c[0], [to_py(f) for f in c[1]] if c[0] == "ok" else None)
'''
ALPHA_NL = ["(", ")", "a", ";", " ", "NL", "'"]   # no string quote: a line ending inside a string literal is data


def newline_spec(n, timeout, first):
    args = ", ".join(f"i{j}: int" for j in range(n)) + ", n: int"
    pre = [f"0 <= i{j} < {len(ALPHA_NL)}" for j in range(n)] + [f"1 <= n <= {n}"]
    pre[0] = f"i0 == {first}"
    body = f'''    A = {ALPHA_NL!r}
    toks = [A[i] for i in [{", ".join("i%d" % j for j in range(n))}][:n]]
    # the same text with LF, CR or CRLF line endings reads to the same forms / the same kind of error
    a, b, c = summary(render(toks, "\\n")), summary(render(toks, "\\r")), summary(render(toks, "\\r\\n"))
    return a == b and b == c'''
    src = harness(args, body, pre=pre, module_code=COMMON + NL_CODE, warm=[])
    return Spec(f"line-endings/LF=CR=CRLF/len<={n}/first={ALPHA_NL[first]!r}", src, timeout=timeout,
                bound=f"every token string of <= {n} tokens over {ALPHA_NL!r}, each rendered with LF, CR and CRLF line endings", meta={"kind": "newline"})


STREAM_CODE = r'''
def ref_loc(text, pos, line0=1, col0=0):
    line, col = line0, col0
    i = 0
    while i < pos:
        ch = text[i]
        nxt = text[i + 1] if i + 1 < len(text) else ""
        if ch == "\n" or (ch == "\r" and nxt != "\n"):
            line, col = line + 1, 0
        else:
            col += 1
        i += 1
    return line, col
def DIAG(**k):
    return k
'''


def stream_spec(tlen, nops, timeout):
    targs = ", ".join(f"c{j}: int" for j in range(tlen)) + ", tl: int, " + ", ".join(f"o{j}: int" for j in range(nops))
    pre = [f"0 <= c{j} < 3" for j in range(tlen)] + [f"0 <= tl <= {tlen}"] + [f"0 <= o{j} < 3" for j in range(nops)]
    body = f'''    text = "".join(["\\n", "\\r", "x"][c] for c in [{", ".join("c%d" % j for j in range(tlen))}][:tl])
    r = R.StreamReader(io.StringIO(text))
    pos, back = 0, 0
    for op in [{", ".join("o%d" % j for j in range(nops))}]:
        if op == 0:
            r.next_char(); pos += 1
            if back_avail[0] < 3: back_avail[0] += 1
        elif op == 1:
            if back_avail[0] <= 0 or pos <= 0:
                continue
            r.pushback(); pos -= 1; back_avail[0] -= 1
        else:
            ch = r.advance()
            if ch != (text[pos] if pos < len(text) else ""):
                return False
            pos += 1
            if back_avail[0] < 3: back_avail[0] += 1
        want = text[pos] if pos < len(text) else ""
        if r.peek() != want:
            return False
        if pos <= len(text) and r.loc != ref_loc(text, pos):
            return False
    return True'''
    body = "    back_avail = [0]\n" + body
    src = harness(targs, body, pre=pre, module_code=COMMON + STREAM_CODE, warm=[])
    return Spec(f"stream-reader/text<={tlen}/ops={nops}", src, timeout=timeout,
                bound=f"text <= {tlen} chars over LF/CR/x, {nops} operations from next_char/pushback/advance (pushback within 3 of the read head)",
                meta={"kind": "stream"})


def run(rep, tier, seed):
    quick = tier == "quick"
    to = 60 if quick else 150
    rep.encoded("src/basilisp/lang/reader.py", ["read_str", "read", "_read_next", "_read_coll", "_read_sym", "_read_num", "_read_str",
                                                 "_read_reader_macro", "_read_meta", "StreamReader.next_char", "StreamReader._update_loc",
                                                 "StreamReader.pushback", "StreamReader.advance", "_with_loc"],
                "executed on CrossHair proxies / solver-chosen alphabet indices")
    specs = [stream_spec(3 if quick else 4, 3 if quick else 5, to)]
    if not quick:
        specs.append(total_unicode_spec(1, 900))
    na, ne, ns = (2, 2, 3) if quick else (3, 3, 4)
    specs += [total_alpha_spec(na, to, f) for f in range(len(ALPHA_DELIM))]
    specs += [total_token_spec(TOKENS_DISPATCH, "dispatch", 2 if quick else 3, to * 2, f) for f in range(len(TOKENS_DISPATCH))]
    specs += [total_token_spec(TOKENS_COND, "reader-conditional", 4 if quick else 5, to * 2, f) for f in (0, 1, 7, 10)]
    specs += [eof_spec(ne, to, f) for f in range(len(ALPHA_EOF))]
    specs += [span_spec(ns, to, f) for f in range(len(ALPHA_SPAN))]
    specs += [newline_spec(4 if quick else 5, to * 2, f) for f in range(len(ALPHA_NL))]
    rep.bounds = {"unicode": "thorough only: all strings of <= 1 code point (CrossHair needs > 150 s for one symbolic character: the reader classifies characters with regexes)",
                  "delimiter alphabet": f"{len(ALPHA_DELIM)} characters, length <= 3 (quick) / 5 (thorough)",
                  "eof": "length <= 3 / 5", "spans": "<= 4 / 5 tokens incl. CR, CRLF, LF and a multi-byte character"}
    rep.outside = ["longer inputs", "syntax-quoted forms' locations", "data readers with custom tags / reader conditionals with custom features",
                   "the REPL (prompt.py) is not executed: only the exception class it keys on"]
    rep.assumptions += ["re, unicodedata and io.StringIO are environment (CrossHair models or realises)",
                        "EOF oracle is metamorphic (real reader only): EOF => some continuation changes the verdict; malformed => no continuation starting a new token makes the text readable"]
    rep.trusted += ["crosshair-tool 0.0.110 + z3"]
    rep.extra["explanation"] = ("the input text is a symbolic str (all of Unicode) or a solver-chosen sequence of alphabet indices; "
                                "CrossHair exhausts the path tree of the real reader")

    def matcher(spec, cex):
        return {"kind": spec.meta["kind"]}

    run_specs(rep, specs, matcher, lambda s, c: f"{s.name}: {c}", replay_timeout=300)
