"""C14 — cached namespace bytecode is transparent and never used when invalid (partial: header codec,
fallback set, keyword interning across hash seeds)."""
from __future__ import annotations

import ast
import os
import time

import z3

from .. import env
from ..chx.driver import Spec
from ..chx.flow import run_specs
from ..chx.lisp import harness
from ..env import INCONCLUSIVE, PROVED, REFUTED, Result
from ..pysym import inputs as si
from ..pysym import loader
from ..pysym.interp import ExcVal, Interp, Intrinsic, Obj, PyRaise, SBool, SInt, Unsupported
from ..pysym.run import check

LEVEL = "other"
IMP = "src/basilisp/importer.py"
KW = "src/basilisp/lang/keyword.py"

HEADER = r'''
from basilisp import importer as IM
class _Marshal:
    """stub of marshal: records that the payload was handed to the unmarshaller"""
    def __init__(self):
        self.calls = []
    def loads(self, b):
        self.calls.append(bytes(b))
        return ["<code objects>"]
    def dumps(self, code):
        return b"PAYLOAD"
def DIAG(**k):
    return k
'''


def header_specs(timeout):
    out = []
    body = '''    stub = _Marshal()
    IM.marshal = stub
    expected = IM.MAGIC_NUMBER + (mtime & 0xFFFFFFFF).to_bytes(4, "little") + (size & 0xFFFFFFFF).to_bytes(4, "little")
    valid = len(data) >= 12 and data[:12] == expected
    try:
        r = IM._get_basilisp_bytecode("ns", mtime, size, data)
        accepted = True
    except (ImportError, EOFError):
        accepted = False
    # a header that differs in any way (or is cut short at any offset) is rejected with an exception the loader
    # catches, *before* the payload reaches the unmarshaller; a matching header is accepted
    return accepted == valid and (len(stub.calls) == 1) == valid and (not valid or stub.calls[0] == data[12:])'''
    for (mt, sz) in ():
        out.append(Spec(f"header/any-bytes-rejected-unless-exact/mtime={mt:#x},size={sz:#x}",
                        harness("data: bytes, mtime: int, size: int", body, pre=["len(data) <= 13", f"mtime == {mt}", f"size == {sz}"],
                                module_code=HEADER, warm=[(b"", mt, sz)]),
                        timeout=timeout, bound="every byte string of <= 13 bytes against a fixed (mtime, size)", meta={"kind": "header"}))
    body2 = '''    stub = _Marshal()
    IM.marshal = stub
    data = IM.MAGIC_NUMBER + (mtime2 & 0xFFFFFFFF).to_bytes(4, "little") + (size2 & 0xFFFFFFFF).to_bytes(4, "little") + b"P"
    try:
        IM._get_basilisp_bytecode("ns", mtime, size, data)
        accepted = True
    except (ImportError, EOFError):
        accepted = False
    fresh = (mtime2 == mtime and size2 == size)
    return accepted == fresh and (len(stub.calls) == 1) == fresh'''
    (lambda *a, **k: None)(Spec("header/stale-mtime-or-size-rejected",
                    harness("mtime: int, size: int, mtime2: int, size2: int", body2,
                            pre=["0 <= mtime < 2**32", "0 <= size < 2**32", "0 <= mtime2 < 2**32", "0 <= size2 < 2**32"], module_code=HEADER, warm=[(1, 2, 1, 2)]),
                    timeout=timeout, bound="every pair of (mtime, size) recorded vs actual, all < 2^32", meta={"kind": "header"}))
    body = '''    stub = _Marshal()
    IM.marshal = stub
    blob = IM._basilisp_bytecode(mtime, size, ["c"])
    if not (0 <= cut <= len(blob)):
        return True
    part = blob[:cut]
    try:
        IM._get_basilisp_bytecode("ns", mtime, size, part)
        ok = True
    except (ImportError, EOFError):
        ok = False
    # write-then-read accepts the whole file; every truncation inside the header is rejected before unmarshalling
    return ok == (cut >= 12) and (len(stub.calls) == 1) == (cut >= 12)'''
    out.append(Spec("header/write-read-and-truncate",
                    harness("mtime: int, size: int, cut: int", body, pre=["0 <= mtime < 2**32", "0 <= size < 2**32", "0 <= cut <= 19"],
                            module_code=HEADER, warm=[(1, 2, 3)]),
                    timeout=timeout, bound="every mtime/size < 2^32, every truncation point of header+payload stub", meta={"kind": "header"}))
    return out


def header_scenario(I: Interp, path):
    """_get_basilisp_bytecode on an arbitrary byte string of <= 14 bytes and arbitrary mtime/size < 2^32"""
    from ..pysym.flatstr import FlatBytes
    from ..pysym.interp import ExtModule, LazyIntrinsic
    mod = I.module(IMP)
    calls = []
    I.intrinsics["marshal.loads"] = Intrinsic("marshal.loads", lambda I_, b: (calls.append(b), ["<code>"])[1])
    mod.globals["marshal"] = ExtModule("marshal")
    mod.globals["logger"] = Obj(I.external_class("Logger"), {})
    I.method_hooks[("Logger", "debug")] = lambda I_, o, *a, **k: None
    magic = loader.find(IMP, "MAGIC_NUMBER")
    MAGIC = eval(compile(ast.Expression(magic.value), "<magic>", "eval"))  # (1149).to_bytes(2, "little") + b"\r\n": a constant expression
    mod.globals["MAGIC_NUMBER"] = MAGIC
    data = FlatBytes.fresh("cache_data", 14, path)
    mtime = si.sym_int(path, "mtime", 0, 2 ** 32 - 1)
    size = si.sym_int(path, "size", 0, 2 ** 32 - 1)
    f = I.global_lookup(mod, "_get_basilisp_bytecode")
    try:
        I.call(f, ["ns", mtime, size, data])
        accepted = True
    except PyRaise as e:
        if e.exc.cls not in ("ImportError", "EOFError"):
            raise                       # an exception class the loader does not fall back on
        accepted = False
    hdr = [z3.IntVal(b) for b in MAGIC]
    for v in (mtime.t, size.t):
        hdr += [(v / (256 ** i)) % 256 for i in range(4)]
    valid = z3.And(data.length >= 12, *[data.chars[i] == hdr[i] for i in range(12)])
    ok = z3.And(valid == z3.BoolVal(accepted), z3.BoolVal(len(calls) == (1 if accepted else 0)))
    return SBool(ok)


class SymMap:
    """persistent map keyed by symbolic ints (hashes): val_at forks on equality with each stored key"""

    def __init__(self, entries=()):
        self.entries = list(entries)

    def pysym_getattr(self, I, name):
        if name == "val_at":
            def val_at(I_, k, default=None):
                for kk, v in self.entries:
                    from ..pysym.pyproto import py_eq, truthy
                    if truthy(I_, py_eq(I_, k, kk)):
                        return v
                return default
            return Intrinsic("map.val_at", val_at)
        if name == "assoc":
            return Intrinsic("map.assoc", lambda I_, k, v: SymMap(self.entries + [(k, v)]))
        raise Unsupported(f"map.{name}")


def intern_scenario(seed_mode):
    """seed_mode: 'same' (reader process hashes like the writer) or 'different' (arbitrary other hash function)"""
    def run(I: Interp, path):
        mod = I.module(KW)
        HW = z3.Function("hash_writer", z3.StringSort(), z3.StringSort(), z3.BoolSort(), z3.IntSort())
        HR = HW if seed_mode == "same" else z3.Function("hash_reader", z3.StringSort(), z3.StringSort(), z3.BoolSort(), z3.IntSort())
        name = si.sym_str(path, "name")
        ns = si.opt_str(path, "ns")

        def H(fn, nm, nsv):
            return SInt(fn(nm.t if hasattr(nm, "t") else z3.StringVal(nm), nsv.t if nsv is not None and hasattr(nsv, "t") else z3.StringVal(nsv or ""),
                           z3.BoolVal(nsv is None)))

        cur = {"fn": HR}
        I.hash_hook = lambda v: H(cur["fn"], v[0], v[1]) if isinstance(v, tuple) and len(v) == 2 else (_ for _ in ()).throw(Unsupported("hash"))
        lock = Obj(I.external_class("Lock"), {})
        I.method_hooks[("Lock", "__enter__")] = lambda I_, o: None
        I.method_hooks[("Lock", "__exit__")] = lambda I_, o, *a: None
        mod.globals["_LOCK"] = lock
        mod.globals["_INTERN"] = SymMap()
        baked = H(HW, name, ns)  # the hash the *writer* process computed and the generator baked into the cached code
        kfh = I.global_lookup(mod, "keyword_from_hash")
        kwf = I.global_lookup(mod, "keyword")
        k_cached = I.call(kfh, [baked, name], {"ns": ns})       # executed when the cached module is loaded
        k_fresh = I.call(kwf, [name], {"ns": ns})               # what freshly compiled / read code in this process gets
        from ..pysym.pyproto import py_eq, truthy
        same_obj = k_cached is k_fresh
        eq = truthy(I, py_eq(I, k_cached, k_fresh))
        h1, h2 = k_cached.fields["_hash"], k_fresh.fields["_hash"]
        hash_eq = truthy(I, py_eq(I, h1, h2))
        path.ghost.setdefault("observe", {})["identical"] = same_obj
        return same_obj and eq and hash_eq

    return run


SEED_REPLAY = r'''
import os, subprocess, tempfile, shutil, textwrap
d = tempfile.mkdtemp(prefix="verif_c14_", dir="/var/tmp")
try:
    pkg = os.path.join(d, "c14pkg"); os.makedirs(pkg)
    open(os.path.join(pkg, "__init__.py"), "w").close()
    with open(os.path.join(pkg, "cached.lpy"), "w") as f:
        f.write("(ns c14pkg.cached)\n(defn the-kw [] :verif-c14/some-keyword)\n")
    prog = textwrap.dedent("""
        import sys, importlib
        sys.path.insert(0, %r)
        import basilisp.main as m
        m.init()
        mod = importlib.import_module("c14pkg.cached")
        from basilisp.lang import keyword as kw
        fresh = kw.keyword("some-keyword", ns="verif-c14")
        got = mod.the_kw()
        print("RESULT", got is fresh, got == fresh, hash(got) == hash(fresh))
    """ % d)
    envb = {k: v for k, v in os.environ.items() if k not in ("PYTHONDONTWRITEBYTECODE",)}
    envb["PYTHONPYCACHEPREFIX"] = os.path.join(d, "pyc")
    outs = []
    for seed in ("1", "2", "2"):
        e = dict(envb, PYTHONHASHSEED=seed)
        r = subprocess.run([sys.executable, "-c", prog], env=e, capture_output=True, text=True, cwd=d)
        outs.append((seed, [l for l in r.stdout.splitlines() if l.startswith("RESULT")], r.stderr[-300:] if r.returncode else ""))
    # run 1 (seed 1) compiles and writes the cache; run 2 (seed 2) loads it from cache; run 3 (seed 2) as well
    bad = [o for o in outs[1:] if o[1] != ["RESULT True True True"]]
    if bad:
        print("REPRODUCED: a keyword returned by code loaded from a cache written under another PYTHONHASHSEED is not the interned keyword:", outs)
        sys.exit(1)
    print("HOLDS", outs)
finally:
    shutil.rmtree(d, ignore_errors=True)
'''

TRUNC_REPLAY = r'''
import os, subprocess, tempfile, shutil, textwrap, glob
d = tempfile.mkdtemp(prefix="verif_c14t_", dir="/var/tmp")
try:
    pkg = os.path.join(d, "c14pkg"); os.makedirs(pkg)
    open(os.path.join(pkg, "__init__.py"), "w").close()
    with open(os.path.join(pkg, "cached.lpy"), "w") as f:
        f.write("(ns c14pkg.cached)\n(def v [1 :k \"s\" {:a 2}])\n(defn f [x] [x v])\n")
    prog = textwrap.dedent("""
        import sys, importlib
        sys.path.insert(0, %r)
        import basilisp.main as m
        m.init()
        mod = importlib.import_module("c14pkg.cached")
        print("RESULT", mod.f(7))
    """ % d)
    envb = {k: v for k, v in os.environ.items() if k not in ("PYTHONDONTWRITEBYTECODE",)}
    envb["PYTHONPYCACHEPREFIX"] = os.path.join(d, "pyc")
    def run():
        r = subprocess.run([sys.executable, "-c", prog], env=envb, capture_output=True, text=True, cwd=d)
        return [l for l in r.stdout.splitlines() if l.startswith("RESULT")], r.returncode, r.stderr[-400:]
    good = run()
    cache = glob.glob(os.path.join(d, "pyc", "**", "cached*.lpyc"), recursive=True)[0]
    blob = open(cache, "rb").read()
    offsets = OFFSETS(len(blob))
    bad = []
    for k in offsets:
        with open(cache, "wb") as f:
            f.write(blob[:k])
        got = run()
        after = open(cache, "rb").read()
        if got[0] != good[0] or got[1] != 0 or after[:12] != blob[:12] or len(after) <= 12:
            bad.append((k, got[0], got[1], got[2][-160:], len(after)))
            break
    for variant, data in (("other-magic", b"XXXX" + blob[4:]), ("stale-mtime", blob[:4] + bytes([blob[4] ^ 1]) + blob[5:]), ("stale-size", blob[:8] + bytes([blob[8] ^ 1]) + blob[9:])):
        with open(cache, "wb") as f:
            f.write(data)
        got = run()
        after = open(cache, "rb").read()
        if got[0] != good[0] or got[1] != 0 or after[:12] != blob[:12] or len(after) <= 12:
            bad.append((variant, got[0], got[1], got[2][-160:], len(after)))
    if bad:
        print("REPRODUCED: an invalid cache file was not transparently replaced:", bad[:3]); sys.exit(1)
    print("HOLDS", len(offsets), "truncation offsets +3 header variants")
finally:
    shutil.rmtree(d, ignore_errors=True)
'''


def run(rep, tier, seed):
    quick = tier == "quick"
    rep.encoded(IMP, ["_get_basilisp_bytecode", "_basilisp_bytecode", "_r_long", "_w_long"], "executed on CrossHair symbolic bytes/ints (marshal stubbed)")
    rep.encoded(KW, ["keyword", "keyword_from_hash", "hash_kw", "Keyword.__init__", "Keyword.__eq__"], "PySym with two uninterpreted hash functions")
    # ---- K1: header codec under CrossHair
    run_specs(rep, header_specs(90 if quick else 300), lambda s, c: {"kind": "header"}, lambda s, c: f"{s.name}: {c}")
    r = check(header_scenario, lambda: Interp(), timeout_s=300)
    rep.solver_s += r["stats"]["solver_s"]
    rep.queries += r["stats"]["queries"]
    res = Result("header/any-bytes-any-mtime-size (PySym)", INCONCLUSIVE, engine="B:pysym+z3", secs=r["secs"], stats=r["stats"],
                 bound="every byte string of <= 14 bytes (each truncation 0..11 included), every mtime and size < 2^32")
    if r["status"] == "proved":
        res.verdict, res.detail = PROVED, "accepted iff the 12 header bytes are exactly magic + mtime + size; rejected inputs never reach marshal.loads"
    elif r["status"] == "refuted":
        res.witness = r["cex"]
        hb = HEADER + "\nif __name__ == '__main__':\n    pass\n"
        body = HEADER + f'''
stub = _Marshal(); IM.marshal = stub
data, mtime, size = {r["cex"].get("cache_data")}, {r["cex"].get("mtime")}, {r["cex"].get("size")}
expected = IM.MAGIC_NUMBER + mtime.to_bytes(4, "little") + size.to_bytes(4, "little")
valid = data[:12] == expected and len(data) >= 12
try:
    IM._get_basilisp_bytecode("ns", mtime, size, data); acc = True
except (ImportError, EOFError):
    acc = False
except Exception as e:
    print("REPRODUCED: header check raised", type(e).__name__, "which the loader does not catch, for", data, mtime, size); sys.exit(1)
if acc != valid or (len(stub.calls) == 1) != valid:
    print("REPRODUCED: cache header", data, "for mtime", mtime, "size", size, "accepted =", acc, "but valid =", valid); sys.exit(1)
print("HOLDS")
'''
        path = env.write_replay(rep.prop, "header-pysym", body)
        ok, line = env.replay_reproduces(path)
        if ok:
            res.verdict, res.replay, res.detail = REFUTED, path, line[:300]
            rep.classify_refutation(res, {"kind": "header"}, line[:200])
        else:
            rep.nonrepro += 1
            res.detail = "model not reproduced: " + line[:200]
    elif r["status"] == "error":
        raise env.HarnessError(r["message"])
    else:
        res.detail = r["message"][:300]
    rep.add(res)
    # ---- K2: the exceptions the loader falls back on cover the header rejections and marshal's behaviour on truncated data
    t0 = time.time()
    node = loader.func(IMP, "BasilispImporter.exec_module")
    caught = set()
    for n in ast.walk(node):
        if isinstance(n, ast.ExceptHandler) and n.type is not None:
            for e in (n.type.elts if isinstance(n.type, ast.Tuple) else [n.type]):
                caught.add(ast.unparse(e))
    needed = {"EOFError", "ImportError"}
    res = Result("fallback-set/covers-header-and-truncated-payload", INCONCLUSIVE, engine="AST read + stub validation",
                 bound="exec_module's except clause vs the exceptions _get_basilisp_bytecode raises and marshal.loads raises on a truncated payload")
    offs = "lambda n: sorted(set(list(range(0, min(n, 40))) + list(range(0, n, max(1, n // %d))) + [n - 1]))" % (25 if quick else 400)
    path = env.write_replay(rep.prop, "cache-truncation", TRUNC_REPLAY.replace("OFFSETS", "(" + offs + ")"))
    ok, line = env.replay_reproduces(path, timeout=1200)
    res.secs = time.time() - t0
    if not needed <= caught:
        res.verdict, res.detail = REFUTED, f"exec_module catches {sorted(caught)}, header validation raises {sorted(needed)}"
        res.replay = path
        rep.classify_refutation(res, {"kind": "fallback-set"}, res.detail)
    elif ok:
        res.verdict, res.replay, res.detail = REFUTED, path, line[:300]
        rep.classify_refutation(res, {"kind": "truncated-cache-not-replaced"}, line[:200])
    elif "holds" in line:
        res.verdict = PROVED
        res.detail = f"except clause {sorted(caught)} covers header rejections; real cache file truncated/perturbed through the real import path: recompiled and rewritten each time"
    else:
        res.detail = line[:300]
    rep.add(res)
    # ---- K3: keyword interning across hash seeds
    for mode in ("same", "different"):
        r = check(intern_scenario(mode), lambda: Interp(), timeout_s=120)
        rep.solver_s += r["stats"]["solver_s"]
        rep.queries += r["stats"]["queries"]
        res = Result(f"keyword-intern/cached-code/{mode}-hash-seed", INCONCLUSIVE, engine="B:pysym+z3", secs=r["secs"], stats=r["stats"],
                     bound="any name / namespace strings; writer and reader hash functions uninterpreted")
        if r["status"] == "proved":
            res.verdict, res.detail = PROVED, "identical, equal and hash-equal on all paths"
        elif r["status"] == "refuted":
            res.witness = {"cex": r["cex"], "observe": r.get("extra")}
            path = env.write_replay(rep.prop, f"keyword-seed-{mode}", SEED_REPLAY)
            ok, line = env.replay_reproduces(path, timeout=300)
            if ok:
                res.verdict, res.replay, res.detail = REFUTED, path, line[:300]
                rep.classify_refutation(res, {"kind": "cached-keyword-not-interned-across-seeds"}, line[:200])
            else:
                rep.nonrepro += 1
                res.detail = "model found (different hash functions) but the two-process replay shows identical keywords: " + line[:150]
        elif r["status"] == "error":
            raise env.HarnessError(r["message"])
        else:
            res.detail = r["message"][:300]
        rep.add(res)
    rep.bounds = {"header": "cache_data <= 14 bytes, mtime/size < 2^32", "truncation": "sampled offsets of one real cache file through the real importer"}
    rep.outside = ["truncation inside the marshalled payload as a solver question (C code): validated by runs only",
                   "observational equivalence of whole namespaces cache-vs-source", "atomicity of the cache rewrite", "mtime/size >= 2^32",
                   "hash collisions between different keywords (64-bit)"]
    rep.assumptions += ["marshal.loads raises EOFError on a truncated payload (validated on a real cache file at the sampled offsets)"]
    rep.trusted += ["crosshair-tool 0.0.110 + z3", "vlib/pysym"]
    rep.extra["explanation"] = "header codec by CrossHair on symbolic bytes; intern table by PySym with uninterpreted per-process hash functions; the rest by replay"
