"""C02 — sub-expressions are evaluated left to right, exactly once (translation validation, Engine A)."""
from __future__ import annotations

import itertools
import random

from ..chx.flow import run_specs
from . import c01

LEVEL = "translation_validation"

# effect markers: (t :k v) appends :k to the trace and returns v (v is usually a symbolic parameter)
ARG_KINDS = {
    "marker": "(t :{k} {v})",
    "if": "(if (t :{k}t {v}) (t :{k}a 1) (t :{k}b 2))",
    "let": "(let* [x (t :{k}i {v})] (t :{k}b x))",
    "do": "(do (t :{k}1 nil) (t :{k}2 {v}))",
    "try": "(try (t :{k}b {v}) (finally (t :{k}f nil)))",
    "loop": "(loop* [i 0] (if (< i 1) (recur (t :{k}r (inc i))) (t :{k}e {v})))",
    # host interop on an effectful target: property read, method call (the target must be evaluated once)
    "attr": "(.-real (t :{k} 7))",
    "method": "(.bit_length (t :{k} 7))",
    "dot-attr": "(. (t :{k} 7) -imag)",
}
ENCLOSING = {
    "call": "((fn* [a b c] [a b c]) {0} {1} {2})",
    "call-fn-position": "((t :f (fn* [a b] [a b])) {0} {1})",
    "vector": "[{0} {1} {2}]",
    "list-literal": "(list {0} {1} {2})",
    "map": "{{{0} 1 {1} 2}}",
    "set": "(count #{{{0} {1}}})",
    "recur": "(loop* [a nil b nil n 0] (if (< n 1) (recur {0} {1} (inc n)) [a b]))",
    "fn-recur": "((fn* [a b n] (if (< n 1) (recur {0} {1} (inc n)) [a b])) nil nil 0)",
    "fn-recur-under-let": "((fn* [a b n] (let* [m n] (if (< m 1) (recur {0} {1} (inc n)) [a b]))) nil nil 0)",
    "if-test": "(if {0} (t :then 1) (t :else 2))",
    "when-test": "(when {0} (t :body 1))",
    "and-or": "(or (and {0} {1}) (t :alt 3))",
    "interop-call": "(.get {{:q 5}} {0} {1})",
    "let-inits": "(let* [a {0} b {1} c {2}] [a b c])",
    "loop-inits": "(loop* [a {0} b {1}] [a b])",
    "do-body": "(do {0} {1} {2})",
    "core-fn": "(vector {0} {1} {2})",
    "inlined-arith": "(+ {0} {1})",
    "keyword-call": "({0} {1})",
}
EXTRA = [
    "(try (t :body (if p0 (throw (python/ValueError \"x\")) 1)) (catch python/ValueError e (t :handler 2)) (finally (t :finally 3)))",
    "(if (t :test p0) (t :then 1) (t :else 2))",
    "(do (if (t :a p0) (t :b nil) (t :c nil)) (t :d p1))",
    "(let* [f (fn* [x] (t :in-fn x))] [(t :before 1) (f (t :arg p0)) (t :after 2)])",
    "((fn* [& r] r) (t :a p0) (if (t :b p1) (t :c 1) (t :d 2)) (t :e p2))",
    "(loop* [i 0 acc []] (if (< i 2) (recur (t :inc (inc i)) (conj acc (t :elem i))) (t :done acc)))",
    "(apply (t :f vector) (t :a p0) [(t :b p1)])",
    "(and (t :a p0) (t :b p1) (t :c p2))", "(or (t :a p0) (t :b p1) (t :c p2))",
    "(when (t :a p0) (t :b 1) (t :c 2))", "(cond (t :a p0) (t :b 1) (t :c p1) (t :d 2) :else (t :e 3))",
    "(operator/contains (t :coll [1 2]) (t :item p0))", "(identical? (t :a p0) (t :b 1))", "(= (t :a p0) (t :b p1) (t :c p2))",
    "(throw (t :exc (python/KeyError (t :msg \"m\"))))",
    # set! as an operand: its value expression runs once and is the value of the form
    "(let* [o (python/type \"O\" (python/tuple) {})] (vector (set! (.-field (t :target o)) (t :val p0)) (.-field o)))",
]


def bodies():
    out = []
    params = ["p0", "p1", "p2"]
    for enc, tmpl in ENCLOSING.items():
        nhole = 3 if "{2}" in tmpl else (2 if "{1}" in tmpl else 1)
        for pos in range(nhole):
            for kind, ktmpl in ARG_KINDS.items():
                if kind == "marker":
                    continue
                args = []
                for j in range(nhole):
                    k = "abc"[j]
                    args.append((ktmpl if j == pos else ARG_KINDS["marker"]).format(k=k, v=params[j]))
                if enc == "keyword-call":
                    args[0] = "(t :a :q)" if pos != 0 else "(if (t :at p0) (t :aa :q) (t :ab :z))"
                    args[1] = args[1].replace("p1", "{:q p1}")
                out.append((f"{enc}/pos{pos}/{kind}", tmpl.format(*args)))
        out.append((f"{enc}/all-markers", tmpl.format(*[ARG_KINDS["marker"].format(k="abc"[j], v=params[j]) for j in range(nhole)])))
    for i, e in enumerate(EXTRA):
        out.append((f"extra{i:02d}", e))
    return out


STATEMENT_KINDS = ("if", "let", "do", "try", "loop")
HOISTING_EXTRAS = ("extra04",)     # a compound / set! operand after an effectful sibling


def hoisted_sibling(spec):
    """where the recorded finding can apply: an operand that compiles to *statements* (a compound form, set!) stands after an
    operand (or a function position) that has an effect of its own. Anything else that merely reorders effects is NOT the finding."""
    n = spec.name
    parts = n.split("/")
    if parts[0] in HOISTING_EXTRAS:
        return True
    if len(parts) >= 3 and parts[2] in STATEMENT_KINDS:
        return parts[1] in ("pos1", "pos2") or (parts[0] == "call-fn-position" and parts[1] == "pos0")
    return False


def run(rep, tier, seed):
    rep.encoded("src/basilisp/lang/compiler/generator.py", ["_invoke_to_py_ast", "_collection_ast", "_chain_py_ast", "_if_to_py_ast", "_let_to_py_ast",
                                                             "_loop_to_py_ast", "_try_to_py_ast", "_do_to_py_ast"], "its output is executed on CrossHair proxies")
    rep.encoded("src/basilisp/lang/compiler/optimizer.py", ["PythonASTOptimizer.visit_Expr", "_optimize_operator_call_attr"], "runs as part of the pipeline")
    quick = tier == "quick"
    rnd = random.Random(seed)
    bs = bodies()
    if quick:
        keep = [b for b in bs if b[0].startswith("extra") or b[0].endswith("all-markers")]
        rest = [b for b in bs if b not in keep]
        # stratified: every enclosing form appears with 4 seeded (position, compound kind) combinations
        by_enc = {}
        for b in rest:
            by_enc.setdefault(b[0].split("/")[0], []).append(b)
        picked = []
        for enc in sorted(by_enc):
            rnd.shuffle(by_enc[enc])
            picked += by_enc[enc][:4]
        bs = keep + picked
    specs = []
    for name, body in bs:
        src = f"(fn* [p0 p1 p2] {body})"
        ct = "multiset" if name.split("/")[0] in ("map", "set") else True
        specs.append(c01.mk_spec("C02", name + "/opts=default", src, (False, True, True), 30 if quick else 90, check_trace=ct))
        if not quick:
            specs.append(c01.mk_spec("C02", name + "/opts=no-inline", src, (False, False, False), 90, check_trace=ct))
    rep.extra["programs"] = len(specs)
    rep.bounds = {"programs": f"{len(ENCLOSING)} enclosing forms x argument position <= 3 x {len(ARG_KINDS) - 1} compound sibling kinds + "
                              f"{len(EXTRA)} extra programs = {len(bodies())}; this run {len(specs)}",
                  "inputs": "marker return values are the 3 symbolic parameters (nil/bool/int)"}
    rep.outside = ["program shapes are enumerated, not solver-chosen", "deftype/reify members, async"]
    rep.trusted += ["crosshair-tool 0.0.110 + z3", "reference evaluator (left-to-right, exactly once by construction)"]
    rep.extra["explanation"] = "the trace of effect markers of the compiled program must equal the reference evaluator's, for every marker value"

    def matcher(spec, cex, line=""):
        import json as _json
        kind = "other"
        if "DIAGJSON=" in line:
            try:
                d = _json.loads(line.split("DIAGJSON=", 1)[1])
                if d.get("same_result") and d.get("trace_is_permutation") and hoisted_sibling(spec):
                    # every marker runs exactly once and the value is right; only the order differs:
                    # statements of a compound sub-form were hoisted before an earlier sibling's evaluation
                    kind = "compound-subform-effects-hoisted"
            except ValueError:
                pass
        return {"kind": kind}

    run_specs(rep, specs, matcher, lambda s, c: f"{s.meta['src']} evaluates in a different order on {c}")
