"""C19 — EDN, JSON and bencode codecs invert themselves and never mis-frame (Engine A)."""
from __future__ import annotations

from ..chx.driver import Spec
from ..chx.flow import run_specs
from ..chx.lisp import harness

LEVEL = "other"

BEN = r'''
ben = importlib.import_module("basilisp.contrib.bencode")
ENC = cfn("encode", "basilisp.contrib.bencode")
DEC = cfn("decode", "basilisp.contrib.bencode")
DECALL = cfn("decode-all", "basilisp.contrib.bencode")
def plain(x):
    """decoded bencode value -> plain Python data"""
    if x is None or isinstance(x, (int, bytes)):
        return x
    if isinstance(x, vec.PersistentVector):
        return [plain(e) for e in x]
    if isinstance(x, lmap.PersistentMap):
        return {plain(k): plain(v) for k, v in x.items()}
    return ("?", repr(x))
def ref_encode(m):
    """bencode by the specification (the oracle)"""
    if isinstance(m, bool):
        raise TypeError
    if isinstance(m, int):
        return b"i" + str(m).encode() + b"e"
    if isinstance(m, bytes):
        return str(len(m)).encode() + b":" + m
    if isinstance(m, list):
        return b"l" + b"".join(ref_encode(e) for e in m) + b"e"
    if isinstance(m, dict):
        return b"d" + b"".join(ref_encode(k) + ref_encode(v) for k, v in sorted(m.items())) + b"e"
    raise TypeError
def to_lisp(m):
    if isinstance(m, list):
        return vec.vector([to_lisp(e) for e in m])
    if isinstance(m, dict):
        return lmap.map({k.decode(): to_lisp(v) for k, v in m.items()})
    return m
def DIAG(**k):
    return k
'''

SHAPES = {
    # name -> (signature, pre, expression building the two messages as plain Python data); integers inside the
    # framing shapes are concrete (str(int) on a proxy is what makes CrossHair time out), byte strings and the cut are symbolic
    "int,bytes": ("b: bytes", ["len(b) <= 3"], "[-42, b]"),
    "bytes,int": ("b: bytes", ["len(b) <= 3"], "[b, 107]"),
    "bytes,bytes": ("a: bytes, b: bytes", ["len(a) <= 2", "len(b) <= 2"], "[a, b]"),
    "list,int": ("b: bytes", ["len(b) <= 2"], "[[7, b], 0]"),
    "dict,bytes": ("b: bytes", ["len(b) <= 2"], '[{b"k": 12, b"j": b}, b]'),
    "nested,int": ("b: bytes", ["len(b) <= 2"], '[[[3], {b"x": [b]}], -1]'),
    "symbolic-int,int": ("a: int", ["-9 <= a <= 99"], "[a, 5]"),
}


def roundtrip_spec(shape, timeout):
    sig, pre, msgs = SHAPES[shape]
    body = f'''    msgs = {msgs}
    for m in msgs:
        e = ENC(to_lisp(m))
        if e != ref_encode(m):
            return False
        r = DEC(e, lmap.map({{}}))
        if plain(r[0]) != m or r[1] is not None:
            return False
    return True'''
    src = harness(sig, body, pre=pre, module_code=BEN, warm=[])
    return Spec(f"bencode/roundtrip/{shape}", src, timeout=timeout, bound="; ".join(pre), meta={"codec": "bencode", "kind": "roundtrip", "shape": shape})


def framing_spec(shape, timeout):
    sig, pre, msgs = SHAPES[shape]
    body = f'''    msgs = {msgs}
    encs = [ENC(to_lisp(m)) for m in msgs]
    stream = b"".join(encs)
    if not (0 <= k <= len(stream)):
        return True
    head, tail = stream[:k], stream[k:]
    got, rest = DECALL(head)
    # the oracle: messages wholly contained in the prefix, in order, then the untouched remainder
    n_complete, used = 0, 0
    for e in encs:
        if used + len(e) <= k:
            used += len(e); n_complete += 1
        else:
            break
    if [plain(x) for x in got] != msgs[:n_complete] or (b"" if rest is None else rest) != head[used:]:
        return False
    # feeding the remainder plus the rest of the stream yields exactly the remaining messages
    got2, rest2 = DECALL((b"" if rest is None else rest) + tail)
    return [plain(x) for x in got2] == msgs[n_complete:] and (rest2 is None or len(rest2) == 0)'''
    src = harness(sig + ", k: int", body, pre=pre + ["0 <= k <= 24"], module_code=BEN, warm=[])
    return Spec(f"bencode/framing/{shape}", src, timeout=timeout, bound="; ".join(pre) + "; every cut position k of the 2-message stream",
                meta={"codec": "bencode", "kind": "framing", "shape": shape})


TEXT = r'''
edn = importlib.import_module("basilisp.edn")
json_ = importlib.import_module("basilisp.json")
EDN_W = cfn("write-string", "basilisp.edn"); EDN_R = cfn("read-string", "basilisp.edn")
JSON_W = cfn("write-str", "basilisp.json"); JSON_R = cfn("read-str", "basilisp.json")
EQ = cfn("=")
def lisp_read(s):
    forms = list(rd.read_str(s))
    return forms
def DIAG(**k):
    return k
'''

EDN_SHAPES = {
    "int": ("a: int", ["-9 <= a <= 99"], "a"),
    "bool-nil": ("a: Optional[bool]", [], "a"),
    "vector": ("a: int, b: Optional[bool]", ["-9 <= a <= 99"], "vec.vector([a, b])"),
    "list": ("a: int, b: int", ["-9 <= a <= 99", "-9 <= b <= 99"], "llist.list([a, b])"),
    "map": ("a: int, b: int", ["-9 <= a <= 99", "-9 <= b <= 99"], 'lmap.map({kw.keyword("k"): a, kw.keyword("n", ns="q"): vec.vector([b])})'),
    "set": ("a: int, b: int", ["-9 <= a <= 99", "-9 <= b <= 99"], "lset.set([a, b])"),
    "nested": ("a: int, b: Optional[bool]", ["-9 <= a <= 99"], 'vec.vector([lmap.map({a: b}), llist.list([a]), lset.set([b])])'),
    "string": ("s: str", ["len(s) <= 2"], "s"),
    "string-in-vector": ("s: str, a: int", ["len(s) <= 1", "-9 <= a <= 99"], "vec.vector([s, a])"),
    "keyword-symbol": ("i: int", ["0 <= i < 4"],
                       '[kw.keyword("a"), kw.keyword("b", ns="n.s"), sym.symbol("x"), sym.symbol("y", ns="n.s")][i]'),
}


def edn_spec(shape, timeout):
    sig, pre, expr = EDN_SHAPES[shape]
    body = f'''    v = {expr}
    text = EDN_W(v)
    back = EDN_R(text)
    if not (EQ(back, v) and type(back) is type(v)):
        return False
    forms = lisp_read(text)
    return len(forms) == 1 and EQ(forms[0], v) and type(forms[0]) is type(v) and EDN_W(back) == text'''
    src = harness(sig, body, pre=pre, module_code=TEXT, warm=[])
    return Spec(f"edn/roundtrip/{shape}", src, timeout=timeout, bound="; ".join(pre) or "leaves unbounded",
                meta={"codec": "edn", "kind": "roundtrip", "shape": shape})


JSON_SHAPES = {
    "int": ("a: int", ["-9 <= a <= 99"], "a", "a"),
    "bool-nil": ("a: Optional[bool]", [], "a", "a"),
    "vector": ("a: int, b: Optional[bool]", ["-9 <= a <= 99"], "vec.vector([a, b])", "vec.vector([a, b])"),
    "map": ("a: int, b: int", ["-9 <= a <= 99", "-9 <= b <= 99"], 'lmap.map({kw.keyword("k"): a, "s": vec.vector([b])})', 'lmap.map({"k": a, "s": vec.vector([b])})'),
    "list->vector": ("a: int, b: int", ["-9 <= a <= 99", "-9 <= b <= 99"], "llist.list([a, b])", "vec.vector([a, b])"),
    "string": ("s: str", ["len(s) <= 2"], "s", "s"),
    "nested": ("a: int, s: str", ["len(s) <= 1", "-9 <= a <= 99"], 'lmap.map({"x": vec.vector([lmap.map({"y": a}), s, None])})',
               'lmap.map({"x": vec.vector([lmap.map({"y": a}), s, None])})'),
}


def json_spec(shape, timeout):
    sig, pre, expr, expect = JSON_SHAPES[shape]
    body = f'''    v = {expr}
    want = {expect}
    text = JSON_W(v)
    back = JSON_R(text)
    return bool(EQ(back, want)) and type(back) is type(want) and JSON_W(back) == JSON_W(want)'''
    src = harness(sig, body, pre=pre, module_code=TEXT, warm=[])
    return Spec(f"json/roundtrip/{shape}", src, timeout=timeout, bound="; ".join(pre) or "leaves unbounded",
                meta={"codec": "json", "kind": "roundtrip", "shape": shape})


def _quick_bounds(pre):
    """the quick tier's smaller ranges (every int / byte ends up realised by str() / bytes concatenation, so each range multiplies
    the path count): first int keeps sign and 1-2 digits, a second int is 0/1, byte strings lose one byte"""
    out = []
    for p in pre:
        p = p.replace("-9 <= a <= 99", "-9 <= a <= 12").replace("-9 <= b <= 99", "0 <= b <= 1")
        p = p.replace("len(b) <= 2", "len(b) <= 1").replace("len(b) <= 3", "len(b) <= 2").replace("len(a) <= 2", "len(a) <= 1")
        out.append(p)
    return out


def run(rep, tier, seed):
    quick = tier == "quick"
    to = 45 if quick else 240
    if quick:
        for table in (SHAPES, EDN_SHAPES, JSON_SHAPES):
            for k, v in list(table.items()):
                table[k] = (v[0], _quick_bounds(v[1])) + tuple(v[2:])
    rep.encoded_lisp("src/basilisp/contrib/bencode.lpy", ["encode", "decode", "decode-all", "decode*", "slice"], "compiled from source; run on proxies")
    rep.encoded_lisp("src/basilisp/edn.lpy", ["write-string", "read-string"], "compiled from source; run on proxies")
    rep.encoded_lisp("src/basilisp/json.lpy", ["write-str", "read-str"], "compiled from source; run on proxies (Python's json is environment)")
    rep.encoded("src/basilisp/lang/reader.py", ["read_str"], "executed on proxies (EDN text re-read by the Lisp reader)")
    specs = []
    for sh in SHAPES:
        specs.append(roundtrip_spec(sh, to))
        specs.append(framing_spec(sh, to))
    for sh in EDN_SHAPES:
        specs.append(edn_spec(sh, to))
    for sh in JSON_SHAPES:
        specs.append(json_spec(sh, to))
    rep.bounds = {"bencode": "2 messages per stream; ints -9..12 quick / -9..99 thorough (1-2 digits, sign); byte strings <= 2 quick / 3 thorough; every cut position",
                  "edn/json": "shapes of depth <= 2 with symbolic int/bool/nil leaves (first int -9..12 quick / -9..99 thorough, second int 0..1 quick); strings <= 2 chars over all of Unicode"}
    rep.outside = ["EDN floats/ratios/decimals/uuid/inst (C boundary realises them)", "streams of more than 2 messages",
                   "message shapes are enumerated"]
    rep.trusted += ["crosshair-tool 0.0.110 + z3", "reference bencode encoder (12 lines) in vlib/props/c19.py"]
    rep.extra["explanation"] = "CrossHair on the compiled codec namespaces; the cut position of the byte stream is a solver variable"

    def matcher(spec, cex):
        return {"codec": spec.meta["codec"], "kind": spec.meta["kind"], "shape": spec.meta["shape"]}

    run_specs(rep, specs, matcher, lambda s, c: f"{s.name} fails on {c}")
