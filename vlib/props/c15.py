"""C15 — the Python-AST optimization pass never changes what generated code does (translation validation)."""
from __future__ import annotations

import ast
import copy
import importlib
import os
import sys
import time

from .. import env
from ..env import INCONCLUSIVE, PROVED, REFUTED, Result
from ..pysym.euf import Validator
from ..pysym.run import run_parallel

LEVEL = "translation_validation"
NEEDS_CORE = False

NAMESPACES = ["basilisp.core", "basilisp.string", "basilisp.set", "basilisp.walk", "basilisp.data", "basilisp.edn", "basilisp.json",
              "basilisp.io", "basilisp.pprint", "basilisp.test", "basilisp.reflect", "basilisp.shell", "basilisp.process",
              "basilisp.url", "basilisp.stacktrace", "basilisp.repl", "basilisp.contrib.bencode", "basilisp.contrib.nrepl_server"]

CORPUS = [
    # generated-program corpus: small Lisp programs compiled through the real pipeline
    "(fn [x y] (if (identical? x 1) (+ x y) (- x y)))", "(fn [x] (identical? x \"abc\"))", "(fn [x] (identical? 1.5 x))",
    "(fn [x] (identical? x nil))", "(fn [x] (identical? x :k))", "(fn [x] (not (identical? x 3)))",
    "(fn [x y] (do (if x nil nil) (quot x y)))", "(fn [x] (loop [i 0] (if (< i x) (recur (inc i)) i)))",
    "(fn [x] (try (/ 1 x) (catch python/ZeroDivisionError _ :div) (finally nil)))",
    "(fn [m k] (operator/contains m k))", "(fn [m k] (operator/getitem m k))", "(fn [f g] (operator/contains (f) (g)))",
    "(fn [f g] (operator/sub (f) (g)))", "(fn [x] (operator/not_ x))", "(fn [x y] (operator/is_ x y))",
    "(fn [x y] (operator/is_not x 7))", "(fn [x] (operator/truth x))", "(fn [x y] [(bit-and x y) (bit-or x y) (bit-xor x y) (bit-shift-left x y)])",
    "(fn [x y] (let [a (* x y) b (mod x y)] (do a b (= a b))))", "(def ^:dynamic *q* 1)", "(fn [] (do 1 2 3))",
    "(fn [x] (when x (throw (ex-info \"x\" {})) 5))", "(fn [coll] (for [x coll :when (odd? x)] (* x x)))",
    "(fn [o] (operator/contains (.-known o) (.-fresh-id o)))", "(fn [o k] (operator/getitem (.-table o) (.-key k)))",
    "(fn [c] (if c (do (throw (ex-info \"x\" {})) (def dead-x 1)) nil) (def dead-x 2))",
    "(fn [d k] (operator/delitem d k) d)", "(fn [d k] [(operator/delitem d k) d])", "(fn [d k] (if (operator/delitem d k) 1 2))",
    "(fn [d k v] [(operator/setitem d k v) d])",
    "(def c15-v 1)", "(fn [] (let [old c15-v] (def c15-v 2) [old c15-v]))", "(fn [] (def c15-v 1) (fn ^:async g [] (def c15-v 2) nil))",
    "(fn [c] (if c15-v (do (def c15-v 2) c15-v) 0))",
    "(fn [x] (try x (finally 2)))", "(fn [x] (try (x) (finally nil)))", "(fn [x] (do (try (x) (finally (if x 1 2))) 3))",
]


def capture_pairs():
    """compile every bundled namespace from source with PythonASTOptimizer.visit wrapped; returns
    [(namespace, index, before Module, after Module)] and the operator alias used by the generator"""
    env.setup_process_env()
    from basilisp.lang.compiler import optimizer as O
    from basilisp.lang.compiler.constants import OPERATOR_ALIAS

    pairs = []
    depth = [0]
    cur = ["?"]
    orig = O.PythonASTOptimizer.visit

    def visit(self, node):
        if depth[0] == 0:
            depth[0] += 1
            try:
                before = copy.deepcopy(node)
                after = orig(self, node)
                pairs.append((cur[0], len(pairs), before, copy.deepcopy(after)))
                return after
            finally:
                depth[0] -= 1
        return orig(self, node)

    O.PythonASTOptimizer.visit = visit
    import basilisp.main as m

    t0 = time.time()
    cur[0] = "basilisp.core"
    m.init()
    failed = []
    for ns in NAMESPACES[1:]:
        cur[0] = ns
        try:
            importlib.import_module(ns)
        except Exception as e:  # optional dependency missing etc.
            failed.append((ns, repr(e)[:100]))
    # generated-program corpus through the real pipeline
    from basilisp.lang import compiler as cc, reader as rd, runtime as rt, symbol as sym

    cur[0] = "corpus"
    ns = rt.Namespace.get_or_create(sym.symbol("verif.c15"))
    ns.refer_all(rt.Namespace.get_or_create(rt.CORE_NS_SYM))
    sys.modules.setdefault(ns.module.__name__, ns.module)
    with rt.ns_bindings("verif.c15"):
        import importlib as _il
        for src in ["(import operator)"] + CORPUS:
            from basilisp.lang import keyword as _kw, map as _lmap
            for opts in (None, _lmap.map({_kw.keyword("inline-functions"): False})):
                ctx = cc.CompilerContext("<c15>", opts=opts)
                for form in rd.read_str(src):
                    try:
                        cc.compile_and_exec_form(form, ctx, ns)
                    except Exception:
                        # the (before, after) pair was captured before compile(); a tree compile() rejects is
                        # reported by the validator as invalid-ast, not here
                        pass
    O.PythonASTOptimizer.visit = orig
    return pairs, OPERATOR_ALIAS, failed, time.time() - t0


def synthetic_pairs(alias):
    """before-trees built directly: every public function of the operator module x operand shapes, and one
    statement list per visit_* method; `after` is produced by the real optimizer"""
    import operator

    from basilisp.lang.compiler.optimizer import PythonASTOptimizer

    shapes = {"name": "a", "call": "f()", "int": "7", "float": "2.5", "str": "'s'", "none": "None", "true": "True", "ellipsis": "...",
              "attr": "o.p", "subscript": "o[a]", "binop": "a + b", "dotted": "o.p.q"}
    srcs = []
    for fn in sorted(n for n in dir(operator) if not n.startswith("_") and callable(getattr(operator, n))):
        if fn in ("attrgetter", "itemgetter", "methodcaller", "call"):
            continue
        for s1, e1 in shapes.items():
            srcs.append((f"operator.{fn}/1/{s1}", f"r = {alias}.{fn}({e1})"))
            for s2, e2 in (("name", "b"), ("call", "g()"), ("int", "7"), ("str", "'s'"), ("none", "None"), ("attr", "o.r"), ("subscript", "o[b]")):
                srcs.append((f"operator.{fn}/2/{s1},{s2}", f"r = {alias}.{fn}({e1}, {e2})"))
    stmts = {
        "dead-after-return": "def f(x):\n    return g(x)\n    h(x)\n",
        "dead-after-raise": "def f(x):\n    raise E(x)\n    h(x)\n",
        "dead-in-while": "while t():\n    k()\n    break\n    h()\n",
        "dead-in-try": "try:\n    a()\n    raise E\n    b()\nexcept E:\n    c()\n    return_()\nfinally:\n    d()\n",
        "bare-constants": "def f():\n    1\n    None\n    x\n    g()\n    return 2\n",
        "empty-if-pure-test": "if None is t or False is t:\n    None\nelse:\n    1\ny = 2\n",
        "empty-if-effectful-test": "if check():\n    None\nelse:\n    1\ny = 2\n",
        "if-empty-body": "if None is t:\n    None\nelse:\n    r = g()\n",
        "if-empty-else": "if t:\n    r = g()\nelse:\n    None\n",
        "global-dedupe": "def f():\n    global a\n    a = 1\n    global a, b\n    b = 2\n    global a\n    return a\n",
        "nested-functions-globals": "def f():\n    global a\n    def g():\n        global a\n        a = 2\n    a = 1\n    global a\n",
        "delitem-statement": f"{alias}.delitem(a, b)\nr = a\n",
        "delitem-statement-calls": f"{alias}.delitem(f(), g())\n",
        "delitem-in-expression": f"r = [{alias}.delitem(a, b), a]\n",
        "global-after-use": "def f():\n    y = x\n    global x\n    x = 1\n    return y\n",
        "global-in-branch-after-use": "def f(c):\n    if x:\n        global x\n        x = 2\n    return x\n",
        "async-nested-global": "def f():\n    global a\n    a = 1\n    async def g():\n        global a\n        a = 2\n    return g\n",
        "nested-global-only-inner": "def f():\n    a = 1\n    def g():\n        global a\n        a = 2\n    return g\n",
        "handler-dead": "try:\n    a()\nexcept E as e:\n    return b()\n    c()\n",
    }
    for k, v in stmts.items():
        srcs.append(("stmt/" + k, v))
    out = []
    for name, src in srcs:
        try:
            before = ast.parse(src)
        except SyntaxError:
            continue
        try:
            after = PythonASTOptimizer().visit(copy.deepcopy(before))
        except Exception as e:  # arity assertion inside the optimizer etc.: not a behaviour change of emitted code
            continue
        out.append((name, src, before, after))
    return out


REPLAY = r'''
import ast, copy, operator, itertools
from basilisp.lang.compiler.optimizer import PythonASTOptimizer
SRC = {src!r}
ALIAS = {alias!r}
before = ast.parse(SRC)
after = PythonASTOptimizer().visit(copy.deepcopy(before))
ast.fix_missing_locations(after)
class Probe:
    """operand whose every operation is logged"""
    def __init__(self, tag, log): self.tag, self.log = tag, log
    def __contains__(self, x): self.log.append(("contains", self.tag)); return False
    def __eq__(self, o): self.log.append(("eq", self.tag)); return True
    def __ne__(self, o): self.log.append(("ne", self.tag)); return False
    def __hash__(self): return 1
def run(tree, a, b):
    log = []
    def f(): log.append("f()"); return Probe("f", log)
    def g(): log.append("g()"); return Probe("g", log)
    class O:
        """object whose attribute and item reads are logged (and yield further loggable objects)"""
        def __init__(self, tag): self._tag = tag
        def __getattr__(self, n):
            if n.startswith("_"): raise AttributeError(n)
            log.append(("getattr", self._tag, n)); return O(self._tag + "." + n)
        def __getitem__(self, k): log.append(("getitem", self._tag)); return Probe(self._tag + "[]", log)
        def __contains__(self, x): log.append(("contains", self._tag)); return False
        def __eq__(self, o): log.append(("eq", self._tag)); return True
        def __hash__(self): return 2
    env = {{ALIAS: operator, "f": f, "g": g, "a": a, "b": b, "o": O("o"), "check": lambda: log.append("check()")}}
    try:
        exec(compile(tree, "<replay>", "exec"), env)
        res = ("ok", repr(env.get("r")) if not isinstance(env.get("r"), Probe) else "probe")
    except Exception as e:
        res = ("exc", type(e).__name__)
    return res, log
cands = [1, 1.0, True, 7, 7.0, 2.5, "s", "".join(["s"]), None, (1,), [1], 0]
for a, b in itertools.product(cands, repeat=2):
    r1, r2 = run(before, a, b), run(after, a, b)
    if r1 != r2:
        print("REPRODUCED: optimized code behaves differently for a=%r b=%r: before %r, after %r; source: %s -> %s"
              % (a, b, r1, r2, SRC.strip(), ast.unparse(after).strip()))
        sys.exit(1)
print("HOLDS")
'''

STRUCT_REPLAY = r'''
import ast, copy
from basilisp.lang.compiler.optimizer import PythonASTOptimizer
BEFORE = {before!r}
EXPECT_AFTER = {after!r}
tree = ast.parse(BEFORE)
out = PythonASTOptimizer().visit(copy.deepcopy(tree))
got = ast.unparse(ast.fix_missing_locations(out))
if got.strip() == EXPECT_AFTER.strip():
    print("REPRODUCED: the pass makes a change outside the allowed rewrites ({kind}: {detail}):\\n--- before\\n" + BEFORE + "\\n--- after\\n" + got)
    sys.exit(1)
print("HOLDS (the optimizer no longer produces the recorded output)")
'''

LISP_REPLAY = r'''
import basilisp.main as _m, importlib, sys
_m.init()
from basilisp.lang import compiler as cc, reader as rd, runtime as rt, symbol as sym
ns = rt.Namespace.get_or_create(sym.symbol("verif.c15r")); ns.refer_all(rt.Namespace.get_or_create(rt.CORE_NS_SYM))
sys.modules.setdefault(ns.module.__name__, ns.module)
def ev(src):
    with rt.ns_bindings("verif.c15r"):
        ctx = cc.CompilerContext("<r>"); last = None
        for f in rd.read_str(src): last = cc.compile_and_exec_form(f, ctx, ns)
        return last
bad = []
for lit, val in (("1", "1.0"), ("2.5", "(/ 5 2.0)"), ("\"ab\"", "(str \"a\" \"b\")")):
    inline = ev(f"((fn [x] (identical? x {lit})) {val})")
    applied = ev(f"(apply identical? [{val} {lit}])")
    if inline != applied:
        bad.append((lit, val, inline, applied))
if bad:
    print("REPRODUCED: (identical? x <literal>) differs between the inlined+optimized form and apply:", bad); sys.exit(1)
print("HOLDS")
'''


def run(rep, tier, seed):
    rep.encoded("src/basilisp/lang/compiler/optimizer.py",
                ["_optimize_operator_call_attr", "_filter_dead_code", "_needs_eq_operator", "PythonASTOptimizer.visit_Call",
                 "PythonASTOptimizer.visit_Expr", "PythonASTOptimizer.visit_If", "PythonASTOptimizer.visit_While",
                 "PythonASTOptimizer.visit_Try", "PythonASTOptimizer.visit_FunctionDef", "PythonASTOptimizer.visit_Global",
                 "PythonASTOptimizer.visit_ExceptHandler"],
                "the real pass is run; every (before, after) AST pair is validated: structural rules + EUF/SMT query per rewritten expression")
    pairs, alias, failed, secs = capture_pairs()
    rep.extra["namespaces_compiled_s"] = round(secs, 1)
    rep.extra["namespaces_failed_to_import"] = failed
    changed = [(ns, i, b, a) for ns, i, b, a in pairs if ast.dump(b) != ast.dump(a)]
    rep.extra["captured_pairs"] = len(pairs)
    rep.extra["changed_pairs"] = len(changed)
    synth = synthetic_pairs(alias)

    # ---- validate captured pairs in parallel chunks
    def chunk_job(chunk):
        def job():
            out = []
            for ns, i, b, a in chunk:
                v = Validator(alias)
                v.module_pair(b, a)
                out.append((ns, i, v.obligations, v.queries, v.solver_s))
            return out
        return job

    n = 16
    chunks = [changed[k::n] for k in range(n) if changed[k::n]]
    results = run_parallel([chunk_job(c) for c in chunks], procs=16)
    by_kind = {}
    bad = []
    nob = 0
    for out in results:
        for ns, i, obs, q, s in out:
            rep.queries += q
            rep.solver_s += s
            for o in obs:
                nob += 1
                by_kind[o["kind"]] = by_kind.get(o["kind"], 0) + 1
                if o["ok"] is not True:
                    bad.append((ns, i, o))
    rep.extra["programs"] = len(pairs) + len(synth)
    rep.extra["rewrite_obligations_by_kind"] = by_kind
    res = Result("bundled-namespaces+corpus/all-pairs", INCONCLUSIVE, engine="B:euf(z3)",
                 bound=f"{len(pairs)} top-level forms of {len(NAMESPACES) - len(failed)} namespaces + {len(CORPUS)} corpus programs x 2 option sets; "
                       f"{len(changed)} changed by the pass; {nob} rewrite obligations",
                 stats={"obligations": nob, "by_kind": by_kind})
    if not changed:
        res.detail = "vacuous: the optimizer changed nothing (capture broken?)"
    elif not bad:
        res.verdict, res.detail = PROVED, "every rewrite is an allowed statement drop or an EUF-equivalent expression rewrite (unsat)"
    else:
        # group by the source text of the offending rewrite; replay
        res.detail = f"{len(bad)} rewrite(s) not validated"
        res.witness = [{"ns": ns, "form": i, **{k: o[k] for k in ("kind", "detail", "before", "after")}} for ns, i, o in bad[:8]]
        is_rewrites = [o for _, _, o in bad if o["kind"] == "expr-rewrite" and o["before"] and (".is_(" in o["before"] or ".is_not(" in o["before"])]
        if len(is_rewrites) == len(bad):
            path = env.write_replay(rep.prop, "identical-literal", LISP_REPLAY)
            ok, line = env.replay_reproduces(path, timeout=180)
            if ok:
                res.verdict, res.replay, res.reproduced = REFUTED, path, True
                res.detail = line[:300]
                rep.classify_refutation(res, {"kind": "is-to-eq"}, line[:200])
            else:
                rep.nonrepro += 1
                res.detail += "; Lisp-level replay does not show a difference: " + line[:150]
        elif any(o["kind"] != "expr-rewrite" for _, _, o in bad):
            # a structural change outside the catalogue: the witness is the real (before, after) pair itself
            nsn, idx, other = [(n_, i_, o) for n_, i_, o in bad if o["kind"] != "expr-rewrite"][0]
            pair = [(b_, a_) for n2, i2, b_, a_ in changed if n2 == nsn and i2 == idx][0]
            bsrc = ast.unparse(ast.fix_missing_locations(pair[0]))
            asrc = ast.unparse(ast.fix_missing_locations(pair[1]))
            path = env.write_replay(rep.prop, "structural-change", STRUCT_REPLAY.format(before=bsrc, after=asrc, kind=other["kind"], detail=other["detail"][:120].replace("'", "")))
            ok, line = env.replay_reproduces(path, timeout=120)
            if ok:
                res.verdict, res.replay, res.reproduced, res.detail = REFUTED, path, True, line[:300]
                rep.classify_refutation(res, {"kind": other["kind"]}, line[:200])
            else:
                rep.nonrepro += 1
                res.detail += "; structural difference not reproduced by re-running the pass on the unparsed source: " + line[:150]
        else:
            other = [o for _, _, o in bad if o not in is_rewrites][0]
            res.verdict = REFUTED
            src = other["before"] or ""
            path = env.write_replay(rep.prop, "captured-rewrite", REPLAY.format(src="r = " + src if not src.startswith(("def ", "if ", "r =")) else src, alias=alias))
            ok, line = env.replay_reproduces(path, timeout=120)
            if ok:
                res.replay, res.reproduced, res.detail = path, True, line[:300]
                rep.classify_refutation(res, {"kind": other["kind"]}, line[:200])
            else:
                res.verdict = INCONCLUSIVE
                rep.nonrepro += 1
                res.detail += "; not reproduced by executing both versions: " + line[:150]
    rep.add(res)

    # ---- synthetic obligations, one result per family
    fams = {}
    for name, src, b, a in synth:
        v = Validator(alias)
        v.module_pair(b, a)
        rep.queries += v.queries
        rep.solver_s += v.solver_s
        fam = name.split("/")[0] + "/" + name.split("/")[1]
        fams.setdefault(fam, []).append((name, src, v.obligations, ast.dump(b) != ast.dump(a)))
    for fam, items in sorted(fams.items()):
        badi = [(n_, s_, o) for n_, s_, obs, ch in items for o in obs if o["ok"] is not True]
        nch = sum(1 for it in items if it[3])
        r = Result(f"synthetic/{fam}", INCONCLUSIVE, engine="B:euf(z3)", bound=f"{len(items)} operand shapes, {nch} rewritten")
        if not badi:
            r.verdict = PROVED
            r.detail = "all rewrites validated (or call left untouched)"
        else:
            n_, s_, o = badi[0]
            r.witness = {"case": n_, "source": s_, "after": o["after"], "why": o["detail"], "model": o.get("model")}
            path = env.write_replay(rep.prop, "synthetic_" + n_, REPLAY.format(src=s_, alias=alias))
            ok, line = env.replay_reproduces(path, timeout=120)
            if ok:
                r.verdict, r.replay, r.reproduced, r.detail = REFUTED, path, True, line[:300]
                kind = "is-to-eq" if ("is_" in fam) else ("operand-order" if "contains" in fam else o["kind"])
                rep.classify_refutation(r, {"kind": kind, "family": fam}, line[:200])
            else:
                rep.nonrepro += 1
                r.detail = f"EUF query sat for {n_} but executing both versions on the probe operands shows no difference: {line[:120]}"
        rep.add(r)
    rep.bounds = {"pairs": "every top-level form of every bundled namespace that imports offline + corpus; synthetic: every public operator-module "
                           "function x 8 x 6 operand shapes; 12 statement-list shapes"}
    rep.outside = ["semantic equivalence of statements the pass does not touch is by identity of the AST",
                   "chained comparisons / comprehensions are opaque terms", "operator functions' behaviour on wrong arity"]
    rep.assumptions += ["plain Name loads are effect-free (the property allows dropping them)",
                        "operator.X(a, b) means 'a X b' as in the Python library reference table"]
    rep.trusted += ["z3 5.1.0 (EUF)", "vlib/pysym/euf.py"]
