"""Syntax-quote templates for C09, generated to depth <= 3 over the property's vocabulary: symbols (core, local namespace, aliased,
special form, unknown, auto-gensym), unquote, unquote-splice, list / vector / set / map, and a syntax-quoted template nested inside an
unquote (its own gensym scope).

template := ("sym", kind, text)      kind in core | local | alias | special | unknown
          | ("gensym", name)         written name#
          | ("unq",)                 ~x
          | ("splice",)              ~@xs          (only inside list / vector / set)
          | ("list" | "vec" | "set", [template...]) | ("map", [(key template, value template)...])
          | ("nested", template)     ~`template    (a template of its own, read inside the outer one)
"""
from __future__ import annotations

import random

SYMS = [("core", "map"), ("core", "first"), ("local", "local-var"), ("alias", "s/join"), ("special", "if"), ("special", "let*"),
        ("unknown", "zzz"), ("core", "+")]


def src(t) -> str:
    k = t[0]
    if k == "sym":
        return t[2]
    if k == "gensym":
        return t[1] + "#"
    if k == "unq":
        return "~x"
    if k == "splice":
        return "~@xs"
    if k == "nested":
        return "~`" + src(t[1])
    if k == "map":
        return "{" + " ".join(src(a) + " " + src(b) for a, b in t[1]) + "}"
    o, c = {"list": "()", "vec": "[]", "set": ("#{", "}")}[k]
    return o + " ".join(src(e) for e in t[1]) + c


def size(t) -> int:
    if t[0] in ("list", "vec", "set"):
        return 1 + sum(size(e) for e in t[1])
    if t[0] == "map":
        return 1 + sum(size(a) + size(b) for a, b in t[1])
    if t[0] == "nested":
        return 1 + size(t[1])
    return 1


def featured():
    G = lambda n: ("gensym", n)
    return [
        ("gensym-reused-in-nested-template", ("vec", [G("x"), ("nested", G("x")), G("x")])),
        ("gensym-nested-collection-then-outer", ("list", [G("a"), ("nested", ("vec", [G("a"), G("b")])), ("set", [G("b")]), G("a")])),
        ("two-nested-templates", ("vec", [("nested", G("x")), ("nested", G("x")), G("x")])),
        ("nested-depth-3", ("list", [G("g"), ("nested", ("vec", [G("g"), ("nested", ("list", [G("g"), ("unq",)]))])), G("g")])),
        ("all-symbol-kinds-in-vector", ("vec", [("sym", k, n) for k, n in SYMS])),
        ("splice-everywhere", ("list", [("sym", "core", "map"), ("splice",), ("vec", [("splice",), ("unq",)]), ("set", [("unq",)])])),
        ("map-with-unquote-and-gensym", ("map", [(("sym", "unknown", ":k"), ("unq",)), (("sym", "unknown", ":g"), G("v"))])),
        ("nested-inside-map-value", ("map", [(("sym", "unknown", ":k"), ("nested", ("vec", [G("m"), ("unq",)])))])),
    ]


def random_template(rnd: random.Random, depth: int, in_seq: bool):
    r = rnd.random()
    if depth == 0 or r < 0.3:
        r2 = rnd.random()
        if r2 < 0.35:
            return ("gensym", rnd.choice(["x", "y"]))
        if r2 < 0.6:
            k, n = rnd.choice(SYMS)
            return ("sym", k, n)
        if r2 < 0.8 or not in_seq:
            return ("unq",)
        return ("splice",)
    if r < 0.5:
        return ("nested", random_template(rnd, depth - 1, False))
    kind = rnd.choice(["list", "vec", "vec", "set", "map"])
    if kind == "map":
        return ("map", [(("sym", "unknown", f":k{i}"), random_template(rnd, depth - 1, False)) for i in range(rnd.randint(1, 2))])
    n = rnd.randint(1, 3)
    items = [random_template(rnd, depth - 1, True) for _ in range(n)]
    if kind == "set":
        # set literals must not repeat an element: keep distinct sources, no splice next to an unquote of possibly equal value
        seen, out = set(), []
        for it in items:
            s_ = src(it)
            if s_ in seen or it[0] in ("splice",):
                continue
            seen.add(s_)
            out.append(it)
        items = out or [("sym", "core", "map")]
    if kind == "list" and items and items[0][0] in ("unq", "splice", "nested"):
        items = [("sym", "unknown", "head")] + items
    return (kind, items)


def generate(seed: int, count: int):
    rnd = random.Random(seed * 104729 + 5)
    out = list(featured())
    seen = {src(t) for _, t in out}
    tries = 0
    while len(out) < len(featured()) + count and tries < 5000:
        tries += 1
        t = random_template(rnd, 3, False)
        if t[0] not in ("list", "vec", "set", "map") or not (4 <= size(t) <= 12) or src(t) in seen or "#" not in src(t):
            continue
        seen.add(src(t))
        out.append((f"random-{len(out)}", t))
    return out
