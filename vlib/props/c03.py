"""C03 — readable printing round-trips through the reader (Engine A)."""
from __future__ import annotations

from ..chx.driver import Spec
from ..chx.flow import run_specs
from ..chx.lisp import harness

LEVEL = "other"

MODULE = r'''
import re, uuid, datetime, fractions, decimal, math
PR = lisp_eval("(fn [v dup meta nsmaps] (binding [*print-dup* dup *print-meta* meta *print-namespace-maps* nsmaps] (pr-str v)))", "verif.c03")
RD = lisp_eval("(fn [s] (read-string s))", "verif.c03")
EQ = cfn("=")
def pick(seq, i):
    """seq[i] for a solver-chosen i by an explicit chain: one path per index, a concrete element on each
    (indexing a heterogeneous list with a symbolic int makes CrossHair build a union of all elements)"""
    for k in range(len(seq)):
        if i == k:
            return seq[k]
    return None
def read_all(text):
    with rt.ns_bindings("verif.c03"):
        return list(rd.read_str(text))
def same(a, b):
    """equal, same type; NaN equals NaN here (the property exempts NaN from reflexivity, not from round-tripping)"""
    if isinstance(a, float) and isinstance(b, float) and a != a and b != b:
        return True
    if type(a) is not type(b):
        return False
    if isinstance(a, float):
        return a == b and math.copysign(1.0, a) == math.copysign(1.0, b)
    if isinstance(a, re.Pattern):
        return a.pattern == b.pattern
    if isinstance(a, (list, tuple)):
        return len(a) == len(b) and all(same(x, y) for x, y in zip(a, b))
    if isinstance(a, (vec.PersistentVector, llist.PersistentList, lqueue.PersistentQueue)) or isinstance(a, ISeq):
        xa, xb = seq_list(a), seq_list(b)
        return len(xa) == len(xb) and all(same(x, y) for x, y in zip(xa, xb))
    if isinstance(a, (lmap.PersistentMap, dict)):
        if len(a) != len(b):
            return False
        for k, v in a.items():
            if k not in b or not same(v, b[k]):
                return False
        return True
    return bool(EQ(a, b)) and bool(EQ(b, a))
def strip_loc(x):
    """drop, recursively, the line/col keys the reader itself attaches (they describe the text, not the value)"""
    if isinstance(x, vec.PersistentVector):
        y = vec.vector([strip_loc(e) for e in x])
    elif isinstance(x, lqueue.PersistentQueue):
        y = lqueue.queue([strip_loc(e) for e in x])
    elif isinstance(x, llist.PersistentList):
        y = llist.list([strip_loc(e) for e in x])
    elif isinstance(x, lmap.PersistentMap):
        y = lmap.map({strip_loc(k): strip_loc(v) for k, v in x.items()})
    elif isinstance(x, lset.PersistentSet):
        y = lset.set([strip_loc(e) for e in x])
    else:
        y = x
    m = getattr(x, "meta", None)
    if hasattr(y, "with_meta"):
        keep = {k: v for k, v in (m.items() if m is not None else []) if not (isinstance(k, kw.Keyword) and k.ns == "basilisp.lang.reader")}
        y = y.with_meta(lmap.map(keep) if keep else None)
    return y
def roundtrip(v, dup=False, meta=False, nsmaps=False, reprint=True):
    text = PR(v, dup, meta, nsmaps)
    forms = read_all(text)
    if len(forms) != 1 or not same(forms[0], v):
        return False
    if PR(v, dup, meta, nsmaps) != text:          # deterministic
        return False
    if not reprint:
        return True
    return PR(strip_loc(forms[0]), dup, meta, nsmaps) == text  # printing the re-read value gives the same text
def DIAG(**k):
    try:
        v = build(**k)
        text = PR(v, False, False, False)
        try:
            back = read_all(text)
        except Exception as e:
            back = "read error: " + repr(e)[:120]
        return ("value", repr(v)[:80], "printed", text[:120], "read back", repr(back)[:160])
    except Exception as e:
        return ("diag error", repr(e))
_get_ns("verif.c03")
'''

STR_ALPHA = ['"', "\\", "a", "u", "U", "x", "n", "0", "1", "e", "é", "中", "\x1f", "\x00", "\n", "\t", "\r", "\x7f", " ",
             "😀", " ", "#", "~"]
FLOATS = ["0.0", "-0.0", "1e22", "1e23", "-1e23", "1e-07", "1.5e300", "5e-324", "float('inf')", "float('-inf')", "float('nan')",
          "1e16", "123456789012345680.0", "0.1", "1/3", "2.5", "-7.0", "1e100", "1.7976931348623157e308", "9007199254740993.0"]
KWSYM = ['kw.keyword("a")', 'kw.keyword("b", ns="n.s")', 'sym.symbol("x")', 'sym.symbol("y?", ns="n.s")', 'kw.keyword("a-b")',
         'sym.symbol("+")', 'sym.symbol("a.b")', 'kw.keyword("k", ns="q")']


def idx_args(n, size, prefix="i"):
    args = ", ".join(f"{prefix}{j}: int" for j in range(n))
    pre = [f"0 <= {prefix}{j} < {size}" for j in range(n)]
    return args, pre


def specs(quick, timeout):
    out = []

    def add(name, sig, pre, build_body, prop_body=None, bound="", kind="", warm=()):
        import re as _re
        names = _re.findall(r"(\w+)\s*:", sig)
        code = MODULE + f"\ndef build({', '.join(names)}):\n{build_body}\n"
        call = "build(" + ", ".join(names) + ")"
        body = prop_body or f"    return roundtrip({call})"
        out.append(Spec(name, harness(sig, body, pre=pre, module_code=code, warm=list(warm)), timeout=timeout, bound=bound,
                        meta={"kind": kind or name.split("/")[0]}))

    # strings over the escape-relevant alphabet, split by first character
    n = 2 if quick else 3
    for first in range(len(STR_ALPHA)):
        a, pre = idx_args(n, len(STR_ALPHA))
        pre[0] = f"i0 == {first}"
        pre.append(f"1 <= ln <= {n}")
        add(f"string/alphabet/len<={n}/first={STR_ALPHA[first]!r}", a + ", ln: int", pre,
            f"    A = {STR_ALPHA!r}\n    return ''.join(A[i] for i in [{', '.join('i%d' % j for j in range(n))}][:ln])",
            bound=f"strings of <= {n} characters over {len(STR_ALPHA)} escape-relevant characters", kind="string")
    add("string/empty", "z: int", ["z == 0"], "    return ''", bound="the empty string", kind="string")
    # fully symbolic one-character string (all of Unicode): finds bugs by realisation, rarely exhausts
    add("string/unicode/len<=1", "s: str", ["len(s) <= 1"], "    return s", bound="every string of <= 1 code point", kind="string")
    # integers, ratios
    add("number/int", "a: int", ["-30 <= a <= 130"], "    return a", bound="ints -30..130 (str(int) realises under CrossHair)", kind="number")
    add("number/big-int", "i0: int", ["0 <= i0 < 4"], "    return pick([10**23, -(2**64), 9007199254740993, -1], i0)", bound="4 big ints", kind="number")
    add("number/ratio", "p: int, q: int", ["1 <= q <= 4", "-9 <= p <= 9"],
        "    f = fractions.Fraction(p, q)\n    return f.numerator if f.denominator == 1 else f", bound="p/q, |p| <= 9, q <= 4", kind="number")
    a, pre = idx_args(1, len(FLOATS))
    add("number/float-boundaries", a, pre, f"    return pick([{', '.join(FLOATS)}], i0)", bound=f"{len(FLOATS)} boundary floats (solver-chosen)", kind="number")
    add("number/decimal-print-dup", "i0: int", ["0 <= i0 < 5"],
        "    return pick([decimal.Decimal('1.5'), decimal.Decimal('0'), decimal.Decimal('-3'), decimal.Decimal('1E+3'), decimal.Decimal('0.001')], i0)",
        prop_body="    return roundtrip(build(i0), dup=True)", bound="5 decimals, *print-dup* on", kind="number")
    add("number/complex", "i0: int", ["0 <= i0 < 3"], "    return pick([2j, -1.5j, 0j], i0)", bound="3 imaginary numbers", kind="number")
    # keywords, symbols
    a, pre = idx_args(1, len(KWSYM))
    add("ident/keywords-symbols", a, pre, f"    return pick([{', '.join(KWSYM)}], i0)", bound=f"{len(KWSYM)} keywords/symbols", kind="ident")
    # collections with symbolic leaves
    T = "Optional[bool]"
    shapes = {
        "vector": "vec.vector([x, y, n])", "list": "llist.list([x, n])", "empty-list": "llist.list([])", "map": "lmap.map({kw.keyword('a'): x, 'b': n})",
        "set": "lset.set([x, n])", "queue": "lqueue.queue([x, n])", "nested": "vec.vector([llist.list([x]), lmap.map({n: vec.vector([y])}), lset.set([y])])",
        "py-list": "[x, n]", "py-tuple": "(x, n)", "py-dict-1": "{'k': x}", "py-set": "{n, 8}",
        "ns-map": "lmap.map({kw.keyword('a', ns='n'): x, kw.keyword('b', ns='n'): n})",
    }
    for nm, expr in shapes.items():
        add(f"collection/{nm}", f"x: {T}, y: {T}, i0: int, nsmaps: bool", ["0 <= i0 < 3"], f"    n = pick([0, -1, 42], i0)\n    return {expr}",
            prop_body="    return roundtrip(build(x, y, i0, nsmaps), nsmaps=nsmaps)",
            bound="leaves nil/true/false and an int from {0,-1,42}; *print-namespace-maps* symbolic", kind="collection")
    # every scalar kind of the property's universe as a direct element of every container (the element printer of a container
    # is its own code path: a scalar that prints readably at top level must do so inside a collection too)
    scalars = ["float('inf')", "float('-inf')", "-0.0", "1e23", "0.1", "5e-324", "fractions.Fraction(-1, 3)", "2j", "-1.5j", "10**23",
               "'a\"b\\\\c'", "'\\n'", "kw.keyword('k', ns='q')", "sym.symbol('s?')", "uuid.UUID('12345678-1234-5678-1234-567812345678')",
               "re.compile('a+b')", "b'\\x00\"z'", "float('nan')"]
    containers = {
        "vector": ("vec.vector([1, s])", True), "list": ("llist.list([s, 1])", True), "queue": ("lqueue.queue([s])", True),
        "set": ("lset.set([s])", False), "map-value": ("lmap.map({kw.keyword('a'): s})", True), "map-key": ("lmap.map({s: 1})", False),
        "nested": ("vec.vector([llist.list([lmap.map({kw.keyword('a'): vec.vector([s])})])])", True),
        "py-list": ("[s, 1]", True), "py-tuple": ("(s,)", True), "py-dict-value": ("{'k': s}", True), "py-set": ("{s}", False),
        "lazy-seq": ("llist.list([s, 2]).rest.cons(s)", True),
    }
    for cn, (expr, nan_ok) in containers.items():
        ns_ = len(scalars) if nan_ok else len(scalars) - 1          # NaN is not used as a set member / map key (no value equals it)
        add(f"scalar-in-container/{cn}", "i0: int", [f"0 <= i0 < {ns_}"], f"    SC = [{', '.join(scalars)}]\n    s = None\n    for k in range(len(SC)):\n        if i0 == k:\n            s = SC[k]\n    return {expr}",
            bound=f"{ns_} scalars (special / boundary floats, ratio, imaginary, big int, strings with escapes, keyword, symbol, uuid, regex, bytes) as elements",
            kind="scalar-in-container")
    add("collection/py-dict-2/value", f"x: {T}, i0: int", ["0 <= i0 < 3"], "    return {9: x, 2: pick([0, -1, 42], i0)}",
        prop_body="    return roundtrip(build(x, i0), reprint=False)", bound="two-key #py dict: equal value of the same type", kind="collection")
    add("collection/py-dict-2/reprint-same-text", f"x: {T}, i0: int", ["0 <= i0 < 3"], "    return {9: x, 2: pick([0, -1, 42], i0)}",
        prop_body="    return roundtrip(build(x, i0))", bound="two-key #py dict: re-printing the re-read value gives the same text", kind="py-dict-key-order")
    # metadata under *print-meta*
    add("meta/every-collection-type", f"x: {T}, i0: int", ["0 <= i0 < 8"],
        "    m = lmap.map({kw.keyword('tag'): x})\n    return pick([vec.vector([1]).with_meta(m), sym.symbol('s').with_meta(m), llist.list([1, 2]).with_meta(m),"
        " lmap.map({kw.keyword('k'): 1}).with_meta(m), lset.set([1]).with_meta(m), lqueue.queue([1, 2]).with_meta(m),"
        " vec.vector([lqueue.queue([1]).with_meta(m), llist.list([sym.symbol('q').with_meta(m)])]), llist.list([]).with_meta(m)], i0)",
        prop_body="    v = build(x, i0)\n    if not roundtrip(v, meta=True):\n        return False\n"
                  "    back = read_all(PR(v, False, True, False))[0]\n"
                  "    inner = back if i0 != 6 else back[0]\n"
                  "    return inner.meta is not None and (bool(EQ(inner.meta.val_at(kw.keyword('tag')), x)) or x is None) and kw.keyword('tag') in inner.meta",
        bound="metadata {:tag x} on vector / symbol / list / map / set / queue / nested / empty list", kind="meta")
    # uuid, inst, regex, bytes
    add("tagged/uuid-regex", "i0: int", ["0 <= i0 < 3"],
        "    return pick([uuid.UUID('12345678-1234-5678-1234-567812345678'), re.compile('a+b*x'), re.compile('')], i0)",
        bound="a UUID and two backslash-free patterns (solver-chosen)", kind="tagged")
    add("tagged/regex-with-backslash", "i0: int", ["0 <= i0 < 2"], "    return pick([re.compile('a+\\\\d'), re.compile('\\\\s')], i0)",
        bound="patterns containing a backslash", kind="regex-backslash")
    add("bytes", "b: bytes", ["len(b) <= 1"], "    return b", bound="every byte string of <= 1 byte", kind="bytes")
    return out


def build_sig_fix(sig):
    return sig


def run(rep, tier, seed):
    quick = tier == "quick"
    rep.encoded("src/basilisp/lang/obj.py", ["lrepr", "_lrepr_str", "_lrepr_float", "_lrepr_fraction", "_lrepr_decimal", "seq_lrepr",
                                              "_lrepr_bytes", "_lrepr_pattern"], "executed on CrossHair proxies / solver-chosen alphabet indices")
    rep.encoded("src/basilisp/lang/reader.py", ["read_str", "_read_str", "_read_num", "_read_unicode_escape_seq", "_read_byte_str"], "executed")
    rep.encoded_lisp("src/basilisp/core.lpy", ["pr-str", "read-string"], "compiled from source")
    ss = specs(quick, 60 if quick else 240)
    rep.bounds = {"strings": f"<= {2 if quick else 3} characters over {len(STR_ALPHA)} escape-relevant characters (exhaustive), one fully symbolic character",
                  "numbers": "unbounded ints, small ratios, boundary floats", "collections": "depth <= 2, width <= 2, symbolic leaves"}
    rep.outside = ["value-exact round trip of arbitrary floats (only boundary values)", "deeper/wider collections", "records/types"]
    rep.trusted += ["crosshair-tool 0.0.110 + z3"]
    rep.extra["explanation"] = "CrossHair on the real printer and reader; PROVED = path tree exhausted for that obligation's input space"

    def matcher(spec, cex):
        return {"kind": spec.meta["kind"]}

    rep.outside.append("#inst values (CrossHair's datetime model fails on isoformat): not checked")

    run_specs(rep, ss, matcher, lambda s, c: f"{s.name}: {c}")
