"""C01 — compiled programs compute the values their source denotes (translation validation, Engine A).
Also hosts the generator/evaluator shared with C02."""
from __future__ import annotations

import itertools
import random

from ..chx.driver import Spec
from ..chx.flow import run_specs
from ..chx.lisp import harness

LEVEL = "translation_validation"

# The reference evaluator: a direct interpreter of the special-form fragment over the reader's own data.
REFEVAL = r'''
import builtins as _bi
TRACE = []
def _t(k, v):
    TRACE.append(k.name if isinstance(k, kw.Keyword) else k)
    return v
class Closure:
    def __init__(self, name, arities, env):
        self.name, self.arities, self.env = name, arities, env   # arities: [(params, restparam, body)]
    def __call__(self, *args):
        for params, rest, body in self.arities:
            if (rest is None and len(args) == len(params)) or (rest is not None and len(args) >= len(params)):
                while True:
                    env = dict(self.env)
                    if self.name:
                        env[self.name] = self
                    for p, a in zip(params, args):
                        env[p] = a
                    if rest is not None:
                        extra = args[len(params):]
                        env[rest] = llist.list(extra) if extra else None
                    try:
                        return ev_body(body, env)
                    except Recur as r:
                        args = r.vals
                        if rest is not None:
                            # recur to a variadic arity passes the rest parameter as one value
                            fixed, restv = args[:len(params)], args[len(params)]
                            env2 = None
                            args = tuple(fixed) + (tuple(seq_list(restv)) if restv is not None else ())
                        continue
        raise TypeError("arity")
class Recur(Exception):
    def __init__(self, vals):
        self.vals = vals
class Thrown(Exception):
    def __init__(self, exc):
        self.exc = exc
SPECIAL = {"quote", "if", "do", "let*", "fn*", "loop*", "recur", "letfn*", "try", "throw", "def", "var", "set!"}
GENSYM_SAFE = True
REF_DEFS = {}
def resolve(s, env):
    if s.ns is None and s.name in env:
        return env[s.name]
    if s.ns is None and s.name in REF_DEFS:
        return REF_DEFS[s.name]
    if s.ns == "python":
        return getattr(_bi, s.name)
    if s.ns is not None and rt.Namespace.get(sym.symbol(s.ns)) is None:
        import importlib as _il
        return getattr(_il.import_module(s.ns), s.name)
    if s.ns is None and s.name == "t":
        return _t
    v = rt.Var.find(sym.symbol(s.name, ns=s.ns or "basilisp.core"))
    if v is None:
        raise NameError(s.name)
    return v.value
def ev_body(forms, env):
    r = None
    for f in forms:
        r = ev(f, env)
    return r
def truthy(v):
    return not (v is None or v is False)
def ev(f, env):
    if isinstance(f, sym.Symbol):
        return resolve(f, env)
    if isinstance(f, vec.PersistentVector):
        return vec.vector([ev(x, env) for x in f])
    if isinstance(f, lmap.PersistentMap):
        return lmap.map({ev(k, env): ev(v, env) for k, v in f.items()})
    if isinstance(f, lset.PersistentSet):
        return lset.set([ev(x, env) for x in f])
    if isinstance(f, (llist.PersistentList, ISeq)):
        items = seq_list(f)
        if not items:
            return f
        head = items[0]
        if isinstance(head, sym.Symbol) and head.ns is None and head.name in SPECIAL and head.name not in env:
            return ev_special(head.name, items[1:], env)
        if isinstance(head, sym.Symbol) and head.ns is None and head.name.startswith(".-") and len(head.name) > 2 and head.name not in env:
            return getattr(ev(items[1], env), head.name[2:].replace("-", "_"))       # (.-attr target): one evaluation of target
        if isinstance(head, sym.Symbol) and head.ns is None and head.name == "." and "." not in env:
            target = ev(items[1], env)                       # (. target -attr) / (. target method args...)
            member = items[2]
            if member.name.startswith("-"):
                return getattr(target, member.name[1:].replace("-", "_"))
            margs = [ev(a, env) for a in items[3:]]
            return getattr(target, member.name.replace("-", "_"))(*margs)
        if isinstance(head, sym.Symbol) and head.ns is None and head.name.startswith(".") and len(head.name) > 1 and head.name not in env:
            target = ev(items[1], env)                       # (.method target args...): target, then args, left to right
            margs = [ev(a, env) for a in items[2:]]
            return getattr(target, head.name[1:].replace("-", "_"))(*margs)
        if isinstance(head, sym.Symbol) and not (head.ns is None and head.name in env):
            v = rt.Var.find(sym.symbol(head.name, ns=head.ns or "basilisp.core"))
            if v is not None and v.meta is not None and v.meta.val_at(kw.keyword("macro")):
                with rt.ns_bindings("verif.c01.ref"):
                    expanded = v.value(None, f, *items[1:])   # macros take &env and &form first
                return ev(expanded, env)
        fn = ev(head, env)
        args = [ev(a, env) for a in items[1:]]
        return fn(*args)
    return f
def parse_params(pv):
    params, rest = [], None
    it = iter(pv)
    for p in it:
        if p.name == "&":
            rest = next(it).name
        else:
            params.append(p.name)
    return params, rest
def ev_special(name, args, env):
    if name == "quote":
        return args[0]
    if name == "if":
        if truthy(ev(args[0], env)):
            return ev(args[1], env)
        return ev(args[2], env) if len(args) > 2 else None
    if name == "do":
        return ev_body(args, env)
    if name == "let*":
        env = dict(env)
        b = list(args[0])
        for i in range(0, len(b), 2):
            env[b[i].name] = ev(b[i + 1], env)
        return ev_body(args[1:], env)
    if name == "letfn*":
        env = dict(env)
        b = list(args[0])
        cl = []
        for i in range(0, len(b), 2):
            c = ev(b[i + 1], env)
            cl.append((b[i].name, c))
        for n, c in cl:
            env[n] = c
        for n, c in cl:
            c.env = env
        return ev_body(args[1:], env)
    if name == "fn*":
        fname = None
        if isinstance(args[0], sym.Symbol):
            fname, args = args[0].name, args[1:]
        if isinstance(args[0], vec.PersistentVector):
            arities = [(*parse_params(args[0]), args[1:])]
        else:
            arities = []
            for ar in args:
                ar = seq_list(ar)
                arities.append((*parse_params(ar[0]), ar[1:]))
        return Closure(fname, arities, dict(env))
    if name == "loop*":
        b = list(args[0])
        names = [b[i].name for i in range(0, len(b), 2)]
        env = dict(env)
        for i in range(0, len(b), 2):
            env[b[i].name] = ev(b[i + 1], env)
        n = 0
        while True:
            n += 1
            if n > 12:
                raise RuntimeError("loop bound exceeded in reference evaluator")
            try:
                return ev_body(args[1:], env)
            except Recur as r:
                env = dict(env)
                for nm, v in zip(names, r.vals):
                    env[nm] = v
    if name == "recur":
        raise Recur(tuple(ev(a, env) for a in args))
    if name == "throw":
        raise Thrown(ev(args[0], env))
    if name == "try":
        body, catches, fin = [], [], None
        for a in args:
            if isinstance(a, (llist.PersistentList, ISeq)) and seq_list(a) and isinstance(seq_list(a)[0], sym.Symbol) and seq_list(a)[0].name == "catch" and "catch" not in env:
                catches.append(seq_list(a)[1:])
            elif isinstance(a, (llist.PersistentList, ISeq)) and seq_list(a) and isinstance(seq_list(a)[0], sym.Symbol) and seq_list(a)[0].name == "finally" and "finally" not in env:
                fin = seq_list(a)[1:]
            else:
                body.append(a)
        try:
            try:
                return ev_body(body, env)
            except Recur:
                raise
            except BaseException as e:
                exc = e.exc if isinstance(e, Thrown) else e
                if not isinstance(exc, Exception):
                    raise
                for c in catches:
                    cls = ev(c[0], env)
                    if isinstance(exc, cls):
                        env2 = dict(env)
                        env2[c[1].name] = exc
                        return ev_body(c[2:], env2)
                raise
        finally:
            if fin is not None:
                ev_body(fin, env)
    if name == "def":
        val = ev(args[-1], env) if len(args) > 1 else None
        REF_DEFS[args[0].name] = val
        return ("var", args[0].name)
    if name == "var":
        return ("var", args[0].name)
    if name == "set!":
        # (set! (.-field target) val): host fields only; target object, then value, left to right; the value is the result
        tgt = seq_list(args[0])
        obj = ev(tgt[1], env) if tgt[0].name.startswith(".-") else ev(tgt[1], env)
        field = tgt[0].name[2:] if tgt[0].name.startswith(".-") else tgt[2].name[1:]
        val = ev(args[1], env)
        setattr(obj, field.replace("-", "_"), val)
        return val
    raise NotImplementedError(name)
def canon(x, depth=0):
    if isinstance(x, Closure) or callable(x) and not isinstance(x, (kw.Keyword, vec.PersistentVector, lmap.PersistentMap, lset.PersistentSet, sym.Symbol)):
        return ("fn",)
    if isinstance(x, tuple) and len(x) == 2 and x[0] == "var":
        return ("var", x[1])
    if isinstance(x, rt.Var):
        return ("var", x.name.name)
    if x is None or isinstance(x, (bool, int, str)):
        return (type(x).__name__, x)
    if isinstance(x, kw.Keyword):
        return ("kw", x.ns, x.name)
    if isinstance(x, sym.Symbol):
        return ("sym", x.ns, x.name)
    if isinstance(x, vec.PersistentVector):
        return ("vec", [canon(e) for e in x])
    if isinstance(x, lmap.PersistentMap):
        return ("map", sorted(((canon(k), canon(v)) for k, v in x.items()), key=repr))
    if isinstance(x, lset.PersistentSet):
        return ("set", sorted((canon(e) for e in x), key=repr))
    if isinstance(x, BaseException):
        return ("exc", type(x).__name__)
    if isinstance(x, (llist.PersistentList, ISeq)):
        return ("seq", [canon(e) for e in seq_list(x)])
    return ("obj", type(x).__name__)
def outcome(thunk):
    del TRACE[:]
    try:
        v = thunk()
        return ("ret", canon(v), list(TRACE))
    except Thrown as e:
        return ("exc", type(e.exc).__name__, list(TRACE))
    except Exception as e:
        return ("exc", type(e).__name__, list(TRACE))
_NSN = [0]
def compile_program(src, opts, nsname):
    ns = _get_ns(nsname)
    v = rt.Var.intern(sym.symbol(nsname), sym.symbol("t"), _t)
    return lisp_eval(src, nsname, opts)
_FORMS = {}
def reference(src, args):
    forms = _FORMS.get(src)
    if forms is None:
        with rt.ns_bindings("verif.c01.ref"):
            forms = _FORMS[src] = list(rd.read_str(src))
    REF_DEFS.clear()
    f = None
    for form in forms:
        f = ev(form, {})
    return f(*args)
_get_ns("verif.c01.ref")
'''

# ---- program corpus: bodies over parameters p0 p1 p2 (nil / booleans / ints); names include Python-unsafe spellings
C01_BODIES = [
    # falsiness: only nil and false
    "(if p0 :t :f)", "(if p0 (if p1 1 2) (if p2 3 4))", "(if (if p0 p1 p2) :t :f)", "(if p0 p1)",
    # lexical scope and shadowing
    "(let* [x p0 x (if x 1 2) y x] [x y])", "(let* [x p0] (let* [x p1 y x] (let* [x p2] [x y])))",
    "(let* [x? p0 a-b p1 class p2 print x?] [x? a-b class print])", "(let* [+x+ p0 *y* (if +x+ p1 p2)] *y*)",
    "((fn* [x] (let* [x (if x 1 2)] x)) p0)", "(let* [if p0] if)",
    # closures capture the binding in effect when created
    "(let* [x p0 f (fn* [] x) x p1] [(f) x])", "(let* [mk (fn* [a] (fn* [b] [a b])) f (mk p0) g (mk p1)] [(f 1) (g 2)])",
    "(let* [x p0 f (fn* [y] (let* [x y] (fn* [] x)))] [((f p1)) x])",
    "(loop* [i 0 fs []] (if (< i 3) (recur (inc i) (conj fs (fn* [] i))) (vec (map (fn* [f] (f)) fs))))",
    "(loop* [i 0 acc []] (if (< i 2) (let* [j i] (recur (inc i) (conj acc (fn* [] j)))) (vec (map (fn* [f] (f)) acc))))",
    # recur rebinds all loop locals simultaneously
    "(loop* [a p0 b p1 n 0] (if (< n 2) (recur b a (inc n)) [a b]))", "(loop* [x 0 y 10] (if (< x 3) (recur (inc x) (+ x y)) [x y]))",
    "((fn* [a b n] (if (< n 3) (recur b a (inc n)) [a b])) p0 p1 0)", "((fn* f [a & r] (if r (recur (first r) (next r)) a)) p0 p1 p2)",
    "(loop* [i 0] (if p0 (if (< i 2) (recur (inc i)) i) (if (< i 1) (recur (+ i 5)) [i])))",
    # letfn
    "(letfn* [ev? (fn* ev? [n] (if (= n 0) true (od? (dec n)))) od? (fn* od? [n] (if (= n 0) false (ev? (dec n))))] [(ev? 4) (od? 3) (ev? (if p0 1 2))])",
    # try / catch / finally / throw
    "(try (if p0 (throw (python/ValueError \"v\")) 1) (catch python/ValueError e :caught) (finally :ignored))",
    "(try (try (throw (python/KeyError \"k\")) (catch python/ValueError e :inner)) (catch python/KeyError e (if p0 :outer (throw e))))",
    "(try (if p0 1 (throw (python/ValueError \"x\"))) (catch python/KeyError e :wrong))",
    "(let* [r (try (/ 1 (if p0 0 1)) (catch python/ZeroDivisionError _ :div))] [r])",
    "(try 1 (finally (if p0 2 3)))",
    # def
    "(do (def v1 (if p0 1 2)) (def v-2 [v1 p1]) v-2)", "(do (def f! (fn* [x] [x p0])) (f! p1))",
    # collection literals and invocation
    "[p0 [p1 {:k p2}] #{:a}]", "{:a p0 (if p1 :b :c) p2}", "((if p0 + -) 10 3)", "({:a 1 :b 2} (if p0 :a :b))", "(:k {:k p0})",
    "(quote (a p0 [b]))", "'sym", "((fn* ([] :zero) ([a] [:one a]) ([a & r] [:many a r])) p0 p1)", "((fn* [& r] r))",
    "(apply (fn* [a b & r] [a b r]) p0 [p1 p2 3])",
    "(let* [x p0] (do x x (if x x (do nil x))))", "(do)", "(let* [] p0)", "(if p0 (do) (let* [] nil))",
]

C01_CONTEXTS = {
    "fn-body": "(fn* [p0 p1 p2] BODY)",
    "call-argument": "(fn* [p0 p1 p2] (vector BODY :after))",
    "let-init": "(fn* [p0 p1 p2] (let* [r BODY s r] [s]))",
    "if-test": "(fn* [p0 p1 p2] (if BODY :truthy :falsey))",
    "statement-then-value": "(fn* [p0 p1 p2] (do BODY [BODY]))",
    "top-level-def": "(do (def top-fn (fn* [p0 p1 p2] BODY)) top-fn)",
}

OPTS = list(itertools.product([False, True], repeat=3))  # use-var-indirection, inline-functions, generate-auto-inlines


def opts_dict(o):
    return {"use-var-indirection": o[0], "inline-functions": o[1], "generate-auto-inlines": o[2]}


def mk_spec(prop, name, src, opts, timeout, check_trace):
    mod = REFEVAL + f'''
SRC = {src!r}
OPTS = {opts_dict(opts)!r}
F = compile_program(SRC, OPTS, "verif.c01.p")
reference(SRC, (None, None, None)) if False else _FORMS.setdefault(SRC, list(rd.read_str(SRC)))
def run_compiled(p0, p1, p2):
    return outcome(lambda: F(p0, p1, p2))
def run_reference(p0, p1, p2):
    return outcome(lambda: reference(SRC, (p0, p1, p2)))
def DIAG(p0=None, p1=None, p2=None):
    c, r = run_compiled(p0, p1, p2), run_reference(p0, p1, p2)
    return dict(source=SRC, options=OPTS, compiled=c, reference=r, same_result=(c[:2] == r[:2]),
                trace_is_permutation=(sorted(map(str, c[2])) == sorted(map(str, r[2]))))
'''
    if check_trace == "multiset":
        # map / set literals: the property prescribes no order among their elements, only that each runs exactly once
        body = '''    a = run_compiled(p0, p1, p2)
    b = run_reference(p0, p1, p2)
    return a[:2] == b[:2] and sorted(map(str, a[2])) == sorted(map(str, b[2]))'''
    else:
        body = '''    a = run_compiled(p0, p1, p2)
    b = run_reference(p0, p1, p2)
    return a == b''' if check_trace else '''    a = run_compiled(p0, p1, p2)
    b = run_reference(p0, p1, p2)
    return a[:2] == b[:2]'''
    T = "Union[None, bool, int]"
    srcm = harness(f"p0: {T}, p1: {T}, p2: {T}", body, pre=[f"(p{i} is None or isinstance(p{i}, bool) or 0 <= p{i} <= 1)" for i in range(3)],   # ints end up realised (persistent collections are C code): keep the range small
                   module_code=mod, warm=[(None, True, 1), (False, 0, 2)])
    return Spec(name, srcm, timeout=timeout, bound="parameters nil / true / false / 0 / 1", meta={"src": src, "opts": opts_dict(opts)})


def gen_spec(name, src, opts, timeout, features):
    from .c01_gen import RESET_SRC
    mod = REFEVAL + f'''
SRC = {src!r}
REF_SRC = "(def g0 0) (def g1 1) " + SRC
OPTS = {opts_dict(opts)!r}
RESET = compile_program({RESET_SRC!r}, OPTS, "verif.c01.g")
class CompileFailure(Exception):
    pass
try:
    F = compile_program(SRC, OPTS, "verif.c01.g")
except Exception as _e:
    _why = type(_e).__name__ + ": " + str(_e)[:200]
    def F(*a, _why=_why):
        raise CompileFailure(_why)
_FORMS.setdefault(REF_SRC, list(rd.read_str(REF_SRC)))
def run_compiled(p0, p1, p2):
    RESET()
    return outcome(lambda: F(p0, p1, p2))
def run_reference(p0, p1, p2):
    return outcome(lambda: reference(REF_SRC, (p0, p1, p2)))
def same(a, b):
    if a[:2] != b[:2]:
        return False
    if a[0] != "ret" or a[2] == b[2]:
        return True
    # the *order* of effects is C02's subject (and has a recorded finding there); here the logged values must agree
    return sorted(repr(canon(x)) for x in a[2]) == sorted(repr(canon(x)) for x in b[2])
def DIAG(p0=None, p1=None, p2=None):
    c, r = run_compiled(p0, p1, p2), run_reference(p0, p1, p2)
    return dict(source=SRC, options=OPTS, compiled=repr(c), reference=repr(r), same_result=(c[:2] == r[:2]))
'''
    body = '''    return same(run_compiled(p0, p1, p2), run_reference(p0, p1, p2))'''
    T = "Union[None, bool, int]"
    srcm = harness(f"p0: {T}, p1: {T}, p2: {T}", body, pre=[f"(p{i} is None or isinstance(p{i}, bool) or 0 <= p{i} <= 1)" for i in range(3)],
                   module_code=mod, warm=[(None, True, 1), (False, 0, 2)])
    return Spec(name, srcm, timeout=timeout, bound="generated program (depth <= 3); parameters nil / true / false / 0 / 1; Vars g0/g1 reset before each call",
                meta={"src": src, "opts": opts_dict(opts), "generated": True, "features": features})


def program_specs(tier, seed):
    quick = tier == "quick"
    rnd = random.Random(seed)
    specs = []
    to = 30 if quick else 90
    combos = []
    for bi, body in enumerate(C01_BODIES):
        for cname, ctx in C01_CONTEXTS.items():
            if cname == "if-test" and body.startswith("(do (def"):
                continue
            for o in OPTS:
                combos.append((bi, body, cname, ctx, o))
    if quick:
        # every body in fn-body under default options + a seeded sample of the other (context, option) combinations
        chosen = [c for c in combos if c[2] == "fn-body" and c[4] == (False, True, True)]
        rest = [c for c in combos if c not in chosen]
        rnd.shuffle(rest)
        chosen += rest[:12]
    else:
        # thorough: every body in every context under the default and the all-flipped option set (the other six option sets are
        # covered by the seeded sample of the quick tier over time)
        chosen = [c for c in combos if c[4] in ((False, True, True), (True, False, False))]
    for bi, body, cname, ctx, o in chosen:
        src = ctx.replace("BODY", body)
        oname = "".join("T" if x else "F" for x in o)
        specs.append(mk_spec("C01", f"prog{bi:02d}/{cname}/opts={oname}", src, o, to, check_trace=False))
    # generated programs (seeded): the corpus above is fixed, these change with VERIF_SEED / --seed
    from .c01_gen import generate
    gens = generate(seed, 40 if quick else 120)
    for gi, (gname, gsrc, feats) in enumerate(gens):
        for o in ([OPTS[(3 + gi) % 8]] if quick else [(False, True, True), (True, False, False)]):
            oname = "".join("T" if x else "F" for x in o)
            specs.append(gen_spec(f"{gname}/opts={oname}", gsrc, o, to, feats))
    return specs, len(combos)


def closure_in_loop(spec):
    """the two corpus programs that create a closure inside a loop body over a recur-rebound local"""
    s = spec.meta["src"]
    return "loop*" in s and ("(conj fs (fn* [] i))" in s or "(conj acc (fn* [] j))" in s)


def run(rep, tier, seed):
    rep.encoded("src/basilisp/lang/compiler/__init__.py", ["compile_and_exec_form"], "real pipeline (reader -> analyzer -> generator -> optimizer -> compile/exec)")
    rep.encoded("src/basilisp/lang/compiler/generator.py", ["_if_to_py_ast", "_let_to_py_ast", "_loop_to_py_ast", "_fn_to_py_ast", "_try_to_py_ast",
                                                             "_invoke_to_py_ast", "_def_to_py_ast"], "its output is executed on CrossHair proxies")
    specs, total = program_specs(tier, seed)
    rep.extra["programs"] = len(specs)
    rep.bounds = {"programs": f"{len(C01_BODIES)} bodies x {len(C01_CONTEXTS)} contexts x 8 option sets = {total}; "
                              f"this run: {len(specs)} (quick: all bodies in fn-body + VERIF_SEED sample)",
                  "inputs": "3 parameters, each nil / true / false / 0 / 1 (solver-decided; ints are realised at the persistent-collection boundary, so the range is kept small); loops <= 12 iterations"}
    rep.outside = ["program shapes are a fixed corpus plus a seeded generated sample, not solver-chosen", "interop, deftype/reify, macros, async"]
    rep.trusted += ["crosshair-tool 0.0.110 + z3", "reference evaluator (vlib/props/c01.py REFEVAL, ~200 lines)"]
    rep.extra["explanation"] = "per program, CrossHair explores every path of the compiled function over symbolic parameters and compares with the reference evaluator"

    def matcher(spec, cex):
        if spec.meta.get("generated"):
            if "finally-reads-rebound-loop-local" in spec.meta.get("features", ()):
                return {"kind": "finally-reads-rebound-loop-local"}
            return {"kind": "generated-program", "src": spec.meta["src"]}
        return {"kind": "closure-captures-loop-local" if closure_in_loop(spec) else "other"}

    run_specs(rep, specs, matcher, lambda s, c: f"{s.meta['src']} differs from its denotation on {c}")
