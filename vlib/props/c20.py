"""C20 — integer and ratio arithmetic is exact; quot/rem/mod identities; inline == apply."""
from __future__ import annotations

from ..chx.driver import Spec
from ..chx.flow import run_specs
from ..chx.lisp import harness

LEVEL = "other"

MODULE = r'''
from fractions import Fraction
def sign(v):
    return (v > 0) - (v < 0)
def exact_int(v):
    return type(v) is int
def norm_ok(v):
    """integral results are ints, never Fraction(n, 1), never float"""
    if type(v) is int:
        return True
    return isinstance(v, Fraction) and v.denominator != 1
'''


def divisor_repr(y):
    return y


def qrm_spec(yexpr: str, tag: str, timeout: float) -> Spec:
    body = f'''
    y = {yexpr}
    q = cfn("quot")(x, y); r = cfn("rem")(x, y); m = cfn("mod")(x, y)
    if not (exact_int(q) and exact_int(r) and exact_int(m)):
        return False
    return (x == y * q + r and (r == 0 or sign(r) == sign(x)) and abs(r) < abs(y)
            and (m == 0 or sign(m) == sign(y)) and abs(m) < abs(y) and (x - m) % y == 0)
'''
    diag = f'''
def DIAG(x):
    y = {yexpr}
    return ("quot", cfn("quot")(x, y), "rem", cfn("rem")(x, y), "mod", cfn("mod")(x, y))
'''
    src = harness("x: int", body.rstrip("\n").lstrip("\n"), module_code=MODULE + diag,
                  warm=[(7,), (-7,), (0,), (10**30 + 1,)])
    return Spec(f"quot-rem-mod/int/y={tag}", src, timeout=timeout, bound=f"x: any int (unbounded); y = {tag} (enumerated)",
                meta={"kind": "qrm-int", "y": tag})


def qrm_ratio_spec(den: int, yexpr: str, tag: str, timeout: float) -> Spec:
    body = f'''
    x = Fraction(p, {den})
    if x.denominator == 1:
        x = x.numerator
    y = {yexpr}
    q = cfn("quot")(x, y); r = cfn("rem")(x, y); m = cfn("mod")(x, y)
    if not (exact_int(q) and norm_ok(r) and norm_ok(m)):
        return False
    return (x == y * q + r and (r == 0 or sign(r) == sign(x)) and abs(r) < abs(y)
            and (m == 0 or sign(m) == sign(y)) and abs(m) < abs(y))
'''
    diag = f'''
def DIAG(p):
    x = Fraction(p, {den}); y = {yexpr}
    return ("x", x, "quot", cfn("quot")(x, y), "rem", cfn("rem")(x, y), "mod", cfn("mod")(x, y))
'''
    src = harness("p: int", body.strip("\n"), module_code=MODULE + diag, warm=[(7,), (-7,), (0,)])
    return Spec(f"quot-rem-mod/ratio/den={den}/y={tag}", src, timeout=timeout,
                bound=f"x = p/{den}, p any int; y = {tag}", meta={"kind": "qrm-ratio", "y": tag, "den": den})


def arith_spec(op: str, pyop: str, ysig: str, yexpr: str, tag: str, timeout: float, pre=()) -> Spec:
    body = f'''
    y = {yexpr}
    v = cfn("{op}")(x, y)
    w = {pyop}
    return norm_ok(v) and v == w
'''
    diag = f'''
def DIAG(**k):
    x = k["x"]; y = (lambda y=None: {yexpr})(k.get("y"))
    return (cfn("{op}")(x, y),)
'''
    sig = "x: int" + (", y: int" if ysig else "")
    warm = [(3, 4), (-5, 2)] if ysig else [(3,), (-5,)]
    src = harness(sig, body.strip("\n"), pre=pre, module_code=MODULE + diag, warm=warm)
    return Spec(f"exact/{tag}", src, timeout=timeout, bound=f"x any int; y {('any int' if ysig else yexpr)}",
                meta={"kind": "exact", "op": tag})


LISP_OPS = {"add": "+", "sub": "-", "mul": "*", "div": "/", "quot": "quot", "rem": "rem", "mod": "mod"}


def inline_spec(opname: str, yexpr, timeout: float) -> Spec:
    lop = LISP_OPS[opname]
    sym_y = yexpr is None
    mod = MODULE + f'''
F_INLINE = lisp_eval("(fn [x y] ({lop} x y))", "verif.c20.inl")
F_NOINL = lisp_eval("(fn [x y] ({lop} x y))", "verif.c20.noinl", opts={{"inline-functions": False}})
F_APPLY = lisp_eval("(fn [x y] (apply {lop} [x y]))", "verif.c20.app")
F_INC = lisp_eval("(fn [x] [(inc x) (dec x) (zero? x) (pos? x) (neg? x) (even? x)])", "verif.c20.inc")
F_INC_A = lisp_eval("(fn [x] [(apply inc [x]) (apply dec [x]) (apply zero? [x]) (apply pos? [x]) (apply neg? [x]) (apply even? [x])])", "verif.c20.inca")
def DIAG(**k):
    x = k["x"]; y = k.get("y", {yexpr!r})
    return (F_INLINE(x, y), F_NOINL(x, y), F_APPLY(x, y))
'''
    body = f'''
    {"" if sym_y else f"y = {yexpr}"}
    a = F_INLINE(x, y); b = F_NOINL(x, y); c = F_APPLY(x, y)
    i1 = F_INC(x); i2 = F_INC_A(x)
    return a == b and b == c and type(a) is type(b) and type(b) is type(c) and list(i1) == list(i2)
'''
    src = harness("x: int" + (", y: int" if sym_y else ""), body.strip("\n"), module_code=mod,
                  warm=[(3, 4), (-5, 2)] if sym_y else [(3,), (-5,)])
    return Spec(f"inline-vs-apply/{opname}/y={'sym' if sym_y else yexpr}", src, timeout=timeout,
                bound="x any int; " + ("y any int" if sym_y else f"y = {yexpr}"),
                meta={"kind": "inline", "op": opname})


def run(rep, tier, seed):
    rep.encoded("src/basilisp/lang/numbers.py", ["add", "subtract", "multiply", "divide", "_divide_ints", "trunc",
                                                  "_trunc_fraction", "_normalize_fraction_result"],
                "executed on CrossHair proxies (real module)")
    rep.encoded_lisp("src/basilisp/core.lpy", ["+", "-", "*", "/", "quot", "rem", "mod", "inc", "dec"],
                     "compiled by the real compiler from the current source, executed on proxies")
    quick = tier == "quick"
    to = 25 if quick else 90
    small = [1, 2, 3, 5, 7, 12] if quick else list(range(1, 13))
    divisors = [s * d for d in small for s in (1, -1)]
    huge = [2**53 + 1, -(10**23)] if quick else [2**53 + 1, -(2**53 + 1), 10**23, -(10**23), 2**64, -(2**64) + 1]
    specs = [qrm_spec(str(y), str(y), to) for y in divisors + huge]
    for den in ([2, 3] if quick else [2, 3, 4, 5, 6]):
        for ye, tag in ([("3", "3"), ("-2", "-2")] if quick else
                        [("3", "3"), ("-2", "-2"), ("Fraction(7, 3)", "7/3"), ("Fraction(-1, 2)", "-1/2"), ("5", "5")]):
            specs.append(qrm_ratio_spec(den, ye, tag, to))
    specs.append(arith_spec("+", "x + y", "y", "y", "add", to))
    specs.append(arith_spec("-", "x - y", "y", "y", "sub", to))
    specs.append(arith_spec("*", "x * y", "y", "y", "mul-symbolic-y", to))
    for y in ([3, -4] if quick else [2, 3, -4, 6, 10, -7]):
        specs.append(arith_spec("*", "x * y", "", str(y), f"mul-y={y}", to))
        specs.append(arith_spec("/", "Fraction(x, y) if Fraction(x, y).denominator != 1 else Fraction(x, y).numerator", "",
                                str(y), f"div-y={y}", to))
    for op in ("add", "sub", "mul"):
        specs.append(inline_spec(op, None, to))
    for op in ("div", "quot", "rem", "mod"):
        for y in ([3, -2] if quick else [1, 3, -2, 7, -12]):
            specs.append(inline_spec(op, y, to))
    rep.bounds = {"dividend": "unbounded Python int (z3 Int)", "divisors": divisors + huge,
                  "ratio_denominators": [2, 3] if quick else [2, 3, 4, 5, 6], "per_condition_timeout_s": to}
    rep.outside = ["symbolic x symbolic division (nonlinear): divisors are enumerated", "float/decimal operand values",
                   "operand type contagion is decided separately (dispatch-table obligations)"]
    rep.assumptions += ["CrossHair's int/Fraction models agree with CPython (checked on WARM inputs and on every replay)"]
    rep.trusted += ["crosshair-tool 0.0.110 + z3 5.1.0", "vlib/chx/shim.py singledispatch type() dispatch"]
    rep.extra["explanation"] = ("Each obligation runs the real compiled core functions and basilisp.lang.numbers on a "
                                "CrossHair symbolic int; z3 decides every branch; 'PROVED-IN-BOUND' = path tree exhausted.")

    def matcher(spec, cex):
        return {"kind": spec.meta["kind"], **{k: v for k, v in spec.meta.items() if k in ("op",)}}

    run_specs(rep, specs, matcher, lambda s, c: f"{s.name} fails on {c}")
