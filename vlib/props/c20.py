"""C20 — integer and ratio arithmetic is exact; quot/rem/mod identities; inline == apply."""
from __future__ import annotations

from ..chx.driver import Spec
from ..chx.flow import run_specs
from ..chx.lisp import harness

LEVEL = "other"

MODULE = r'''
from fractions import Fraction
def sign(v):
    return (v > 0) - (v < 0)
def exact_int(v):
    return type(v) is int
def norm_ok(v):
    """integral results are ints, never Fraction(n, 1), never float"""
    if type(v) is int:
        return True
    return isinstance(v, Fraction) and v.denominator != 1
'''


def divisor_repr(y):
    return y


def qrm_spec(yexpr: str, tag: str, timeout: float) -> Spec:
    body = f'''
    y = {yexpr}
    q = cfn("quot")(x, y); r = cfn("rem")(x, y); m = cfn("mod")(x, y)
    if not (exact_int(q) and exact_int(r) and exact_int(m)):
        return False
    return (x == y * q + r and (r == 0 or sign(r) == sign(x)) and abs(r) < abs(y)
            and (m == 0 or sign(m) == sign(y)) and abs(m) < abs(y) and (x - m) % y == 0)
'''
    diag = f'''
def DIAG(x):
    y = {yexpr}
    return ("quot", cfn("quot")(x, y), "rem", cfn("rem")(x, y), "mod", cfn("mod")(x, y))
'''
    src = harness("x: int", body.rstrip("\n").lstrip("\n"), module_code=MODULE + diag,
                  warm=[(7,), (-7,), (0,), (10**30 + 1,)])
    return Spec(f"quot-rem-mod/int/y={tag}", src, timeout=timeout, bound=f"x: any int (unbounded); y = {tag} (enumerated)",
                meta={"kind": "qrm-int", "y": tag})


def qrm_ratio_spec(den: int, yexpr: str, tag: str, timeout: float) -> Spec:
    body = f'''
    x = Fraction(p, {den})
    if x.denominator == 1:
        x = x.numerator
    y = {yexpr}
    q = cfn("quot")(x, y); r = cfn("rem")(x, y); m = cfn("mod")(x, y)
    if not (exact_int(q) and norm_ok(r) and norm_ok(m)):
        return False
    return (x == y * q + r and (r == 0 or sign(r) == sign(x)) and abs(r) < abs(y)
            and (m == 0 or sign(m) == sign(y)) and abs(m) < abs(y))
'''
    diag = f'''
def DIAG(p):
    x = Fraction(p, {den}); y = {yexpr}
    return ("x", x, "quot", cfn("quot")(x, y), "rem", cfn("rem")(x, y), "mod", cfn("mod")(x, y))
'''
    src = harness("p: int", body.strip("\n"), module_code=MODULE + diag, warm=[(7,), (-7,), (0,)])
    return Spec(f"quot-rem-mod/ratio/den={den}/y={tag}", src, timeout=timeout,
                bound=f"x = p/{den}, p any int; y = {tag}", meta={"kind": "qrm-ratio", "y": tag, "den": den})


def arith_spec(op: str, pyop: str, ysig: str, yexpr: str, tag: str, timeout: float, pre=()) -> Spec:
    body = f'''
    y = {yexpr}
    v = cfn("{op}")(x, y)
    w = {pyop}
    return norm_ok(v) and v == w
'''
    diag = f'''
def DIAG(**k):
    x = k["x"]; y = (lambda y=None: {yexpr})(k.get("y"))
    return (cfn("{op}")(x, y),)
'''
    sig = "x: int" + (", y: int" if ysig else "")
    warm = [(3, 4), (-5, 2)] if ysig else [(3,), (-5,)]
    src = harness(sig, body.strip("\n"), pre=pre, module_code=MODULE + diag, warm=warm)
    return Spec(f"exact/{tag}", src, timeout=timeout, bound=f"x any int; y {('any int' if ysig else yexpr)}",
                meta={"kind": "exact", "op": tag})


LISP_OPS = {"add": "+", "sub": "-", "mul": "*", "div": "/", "quot": "quot", "rem": "rem", "mod": "mod"}


def qrm_bounded_spec(y: int, timeout: float, lo=-25, hi=25) -> Spec:
    """bounded dividend: the identities and call-form independence, decided by exhausting the path tree"""
    mod = MODULE + f'''
FS = {{}}
for _op in ("quot", "rem", "mod"):
    FS[_op] = (lisp_eval("(fn [x y] (" + _op + " x y))", "verif.c20.inl"),
               lisp_eval("(fn [x y] (" + _op + " x y))", "verif.c20.noinl", opts={{"inline-functions": False}}),
               lisp_eval("(fn [x y] (apply " + _op + " [x y]))", "verif.c20.app"))
def DIAG(**k):
    x = k["x"]; y = {y}
    return {{op: [f(x, y) for f in fs] for op, fs in FS.items()}}
'''
    body = f'''    y = {y}
    res = {{}}
    for op, fs in FS.items():
        a, b, c = [f(x, y) for f in fs]
        if not (a == b and b == c and type(a) is int and type(b) is int and type(c) is int):
            return False
        res[op] = a
    q, r, m = res["quot"], res["rem"], res["mod"]
    return (x == y * q + r and (r == 0 or sign(r) == sign(x)) and abs(r) < abs(y)
            and (m == 0 or sign(m) == sign(y)) and abs(m) < abs(y) and (x - m) % y == 0)'''
    src = harness("x: int", body, pre=[f"{lo} <= x <= {hi}"], module_code=mod, warm=[(7,), (-6,), (0,)])
    return Spec(f"quot-rem-mod/bounded/y={y}", src, timeout=timeout, bound=f"{lo} <= x <= {hi}; y = {y}; direct, non-inlined and apply call forms",
                meta={"kind": "qrm-bounded", "y": str(y)})


def inline_spec(opname: str, yexpr, timeout: float) -> Spec:
    lop = LISP_OPS[opname]
    sym_y = yexpr is None
    mod = MODULE + f'''
F_INLINE = lisp_eval("(fn [x y] ({lop} x y))", "verif.c20.inl")
F_NOINL = lisp_eval("(fn [x y] ({lop} x y))", "verif.c20.noinl", opts={{"inline-functions": False}})
F_APPLY = lisp_eval("(fn [x y] (apply {lop} [x y]))", "verif.c20.app")
F_INC = lisp_eval("(fn [x] [(inc x) (dec x) (zero? x) (pos? x) (neg? x)])", "verif.c20.inc")
F_INC_A = lisp_eval("(fn [x] [(apply inc [x]) (apply dec [x]) (apply zero? [x]) (apply pos? [x]) (apply neg? [x])])", "verif.c20.inca")
def DIAG(**k):
    x = k["x"]; y = k.get("y", {yexpr!r})
    return (F_INLINE(x, y), F_NOINL(x, y), F_APPLY(x, y))
'''
    body = f'''
    {"" if sym_y else f"y = {yexpr}"}
    a = F_INLINE(x, y); b = F_NOINL(x, y); c = F_APPLY(x, y)
    i1 = F_INC(x); i2 = F_INC_A(x)
    return a == b and b == c and type(a) is type(b) and type(b) is type(c) and list(i1) == list(i2)
'''
    src = harness("x: int" + (", y: int" if sym_y else ""), body.strip("\n"), module_code=mod,
                  warm=[(3, 4), (-5, 2)] if sym_y else [(3,), (-5,)])
    return Spec(f"inline-vs-apply/{opname}/y={'sym' if sym_y else yexpr}", src, timeout=timeout,
                bound="x any int; " + ("y any int" if sym_y else f"y = {yexpr}"),
                meta={"kind": "inline", "op": opname})


# ------------------------------------------------------------------ Engine B: the compiler's IR of quot / rem / mod
IR_SCRIPT = r'''
import ast, sys
import basilisp.main as m
m.init()
from basilisp.lang.compiler import optimizer as O
from basilisp.lang import compiler as cc, reader as rd, runtime as rt, symbol as sym
caps, depth = [], [0]
orig = O.PythonASTOptimizer.visit
def visit(self, node):
    if depth[0] == 0:
        depth[0] += 1
        try:
            r = orig(self, node); caps.append(r); return r
        finally:
            depth[0] -= 1
    return orig(self, node)
O.PythonASTOptimizer.visit = visit
WANT = {"+", "-", "*", "/", "<", ">", "quot", "rem", "mod", "inc", "dec", "zero?", "pos?", "neg?", "abs"}
from basilisp.lang.util import munge
src = open(sys.argv[1]).read()
ns = rt.Namespace.get_or_create(sym.symbol("basilisp.core"))
forms = {}
with rt.ns_bindings("basilisp.core"):
    for form in rd.read_str(src, resolver=rt.resolve_alias):
        try:
            head, name = form.first, form.rest.first
        except AttributeError:
            continue
        if getattr(head, "name", None) == "defn" and getattr(name, "name", None):
            forms.setdefault(name.name, form)
    munged = {munge(k): k for k in forms}
    want, done = set(WANT), set()
    # closure: every core function the captured IR refers to is captured too (so a rewrite of rem in terms of mod, =, pos? ...
    # is still interpreted from the compiler's own output)
    while len(done) < 60:
        todo = sorted(n for n in want if n not in done and n in forms)
        if not todo:
            break
        for n in todo:
            cc.compile_and_exec_form(forms[n], cc.CompilerContext("<ir>"), ns)
            done.add(n)
        defined = {st.name for mod in caps for st in mod.body if isinstance(st, ast.FunctionDef)}
        used = {n.id for mod in caps for n in ast.walk(mod) if isinstance(n, ast.Name) and isinstance(n.ctx, ast.Load)}
        for u in used - defined:
            if u in munged:
                want.add(munged[u])
out = []
for mod in caps:
    for st in mod.body:
        if isinstance(st, ast.FunctionDef):
            if st.name.startswith("__lisp_expr__"):
                continue
            st.decorator_list = [d for d in st.decorator_list if "_with_attrs" not in ast.unparse(d)]
            out.append(ast.unparse(st))
        elif isinstance(st, ast.Assign):
            out.append(ast.unparse(st))
print((chr(10) * 2).join(out))
'''


class TrampolineArgs:
    def __init__(self, has_varargs, args):
        self.has_varargs, self.args = has_varargs, list(args)

    def trampoline_args(self):
        if not self.has_varargs:
            return self.args
        *fixed, rest = self.args
        return list(fixed) + list(rest or ())


def ir_interp(ir_src):
    import re

    import z3

    from ..pysym.interp import ExcVal, ExtModule, Interp, Intrinsic, PyRaise, SInt, SReal, Unsupported
    from ..pysym.pyproto import _treal

    I = Interp(unwind=6)
    X = I.intrinsics

    def frac_new(I_, cls, num=0, den=None):
        n = _treal(num)
        if den is None:
            return SReal(n)
        d = _treal(den)
        if I_.path.branch(d == 0):
            raise PyRaise(ExcVal("ZeroDivisionError"))
        return SReal(n / d)

    I.method_hooks[("Fraction", "__new__")] = frac_new

    def trunc(I_, v):
        if isinstance(v, SReal):
            return SInt(z3.If(v.t >= 0, z3.ToInt(v.t), -z3.ToInt(-v.t)))
        return v

    def floor(I_, v):
        return SInt(z3.ToInt(v.t)) if isinstance(v, SReal) else v

    X["math.trunc"] = Intrinsic("math.trunc", trunc)
    X["math.floor"] = Intrinsic("math.floor", floor)
    X["operator.neg"] = Intrinsic("operator.neg", lambda I_, v: I_.binop(__import__("ast").Sub(), 0, v))
    X["operator.abs"] = X["abs"]
    # runtime support functions used by generated variadic arities (environment; rest args are Python tuples here)
    X["runtime._unwrap_rest_args"] = Intrinsic("_unwrap_rest_args", lambda I_, a: tuple(a))
    X["runtime.first"] = Intrinsic("first", lambda I_, s_: (s_[0] if s_ else None))
    X["runtime.rest"] = Intrinsic("rest", lambda I_, s_: tuple(s_[1:]) if s_ else ())
    X["runtime.to_seq"] = Intrinsic("to_seq", lambda I_, s_: (s_ if s_ else None))
    X["runtime._TrampolineArgs"] = Intrinsic("_TrampolineArgs", lambda I_, has_varargs, *a: TrampolineArgs(has_varargs, a))
    X["runtime.RuntimeException"] = X["RuntimeException"]
    m = I.module_from_source("<compiler-ir>", ir_src)
    # module aliases generated by the compiler: numbers_20, math_abc, operator_2, runtime_25, basilisp
    names = set(re.findall(r"\b([A-Za-z]+_[A-Za-z0-9]+)\.", ir_src))
    for n in names:
        base = n.split("_")[0]
        if base == "numbers":
            m.globals[n] = I.module("src/basilisp/lang/numbers.py")
        elif base == "runtime":
            m.globals[n] = ExtModule(base, fallback="src/basilisp/lang/runtime.py")
        elif base in ("math", "operator"):
            m.globals[n] = ExtModule(base)
    m.globals["basilisp"] = ExtModule("basilisp")
    X["basilisp.lang"] = ExtModule("basilisp.lang")
    X["basilisp.lang.runtime"] = ExtModule("runtime", fallback="src/basilisp/lang/runtime.py")
    return I, m


def qrm_scenario(ir_src, ymode, what):
    """x: any int; y: symbolic non-zero int in a small range ('sym') or a concrete divisor"""
    import z3

    from ..pysym import inputs as si
    from ..pysym.interp import SBool, SInt, SReal

    def run(I_unused, path):
        I, m = ir_interp(ir_src)
        I.path = path
        x = si.sym_int(path, "x")
        if ymode == "sym":
            y = si.sym_int(path, "y", -12, 12)
            path.assume(y.t != 0)
        else:
            y = ymode
        yt = y.t if isinstance(y, SInt) else z3.IntVal(y)
        f = I.global_lookup(m, what)
        r = I.call(f, [x, y])
        path.ghost.setdefault("observe", {})["result"] = r
        if not isinstance(r, SInt):
            return False          # an integral result must be an int, never a Fraction / float
        q = z3.Int("q_ref")       # reference: truncated quotient of x by y, defined by its specification
        rr = z3.Int("r_ref")
        absy = z3.If(yt >= 0, yt, -yt)
        path.assume(z3.And(x.t == yt * q + rr, z3.If(x.t >= 0, z3.And(rr >= 0, rr < absy), z3.And(rr <= 0, rr > -absy))))
        if what == "quot":
            return SBool(r.t == q)
        if what == "rem":
            return SBool(r.t == rr)
        # mod: same sign as the divisor (or zero), congruent to x, magnitude below |y|
        mm = r.t
        return SBool(z3.And(z3.If(yt > 0, z3.And(mm >= 0, mm < yt), z3.And(mm <= 0, mm > yt)), (x.t - mm) % absy == 0))

    return run


def ratio_scenario(ir_src, den, y, what):
    import z3

    from ..pysym import inputs as si
    from ..pysym.interp import SBool, SInt, SReal

    def run(I_unused, path):
        I, m = ir_interp(ir_src)
        I.path = path
        p = si.sym_int(path, "p")
        path.assume(p.t % den != 0)          # a proper ratio p/den
        x = SReal(z3.ToReal(p.t) / den)
        f = I.global_lookup(m, what)
        r = I.call(f, [x, y])
        rt_ = z3.ToReal(r.t) if isinstance(r, SInt) else r.t
        xq = x.t / y
        tq = z3.If(xq >= 0, z3.ToReal(z3.ToInt(xq)), -z3.ToReal(z3.ToInt(-xq)))
        if what == "quot":
            return isinstance(r, SInt) and SBool(rt_ == tq) or False
        if what == "rem":
            return SBool(rt_ == x.t - y * tq)
        fl = z3.ToReal(z3.ToInt(xq))
        return SBool(rt_ == x.t - y * fl)

    return run


def type_contagion_scenarios():
    """result *type* of add/multiply is symmetric in the operand types and all four operators never return Fraction(n, 1)"""
    import z3

    from ..pysym import inputs as si
    from ..pysym.interp import Interp, SBool, SInt, SReal

    def mk(op):
        def run(I, path):
            mod = I.module("src/basilisp/lang/numbers.py")
            from ..pysym.interp import ExcVal, PyRaise
            from ..pysym.pyproto import _treal

            def frac_new(I_, cls, num=0, den=None):
                n = _treal(num)
                if den is None:
                    return SReal(n)
                d = _treal(den)
                if I_.path.branch(d == 0):
                    raise PyRaise(ExcVal("ZeroDivisionError"))
                return SReal(n / d)
            I.method_hooks[("Fraction", "__new__")] = frac_new
            f = I.global_lookup(mod, op)
            kinds = []
            vals = []
            for nm in ("a", "b"):
                k = path.choose(2, nm + "_is_ratio")
                if k == 0:
                    v = si.sym_int(path, nm)
                else:
                    num = si.sym_int(path, nm + "_num")
                    path.assume(num.t % 3 != 0)
                    v = SReal(z3.ToReal(num.t) / 3)
                kinds.append(k)
                vals.append(v)
            if op == "divide":
                path.assume((vals[1].t if isinstance(vals[1], (SInt, SReal)) else vals[1]) != 0)
            r1 = I.call(f, [vals[0], vals[1]])
            exact = {"add": lambda p, q: p + q, "subtract": lambda p, q: p - q, "multiply": lambda p, q: p * q, "divide": lambda p, q: p / q}[op]
            want = exact(_treal(vals[0]), _treal(vals[1]))
            got = _treal(r1)
            # exact rational arithmetic, and the representation is an int exactly when the value is integral
            ok = z3.And(got == want, z3.BoolVal(isinstance(r1, SInt)) == z3.IsInt(want))
            if op in ("add", "multiply"):
                r2 = I.call(f, [vals[1], vals[0]])
                ok = z3.And(ok, _treal(r2) == want, z3.BoolVal(type(r1) is type(r2)))
            return SBool(ok)
        return run
    return {op: mk(op) for op in ("add", "subtract", "multiply", "divide")}


B_REPLAY = r'''
from fractions import Fraction
NAME, CEX, META = "@NAME@", @CEX@, @META@
def sign(v): return (v > 0) - (v < 0)
def norm_ok(v): return type(v) is int or (isinstance(v, Fraction) and v.denominator != 1)
bad = []
if NAME.startswith("ir/"):
    import re
    if "x=p/" in NAME:
        den = int(re.search(r"x=p/(\d+)", NAME).group(1)); x = Fraction(int(CEX["p"]), den)
        x = x.numerator if x.denominator == 1 else x
    else:
        x = int(CEX["x"])
    y = int(CEX["y"]) if "y" in CEX else int(re.search(r"y=(-?\d+)", NAME).group(1))
    q, r, m = cfn("quot")(x, y), cfn("rem")(x, y), cfn("mod")(x, y)
    if type(q) is not int or not norm_ok(r) or not norm_ok(m): bad.append("result representation")
    if not (x == y * q + r): bad.append("x != y*quot + rem")
    if not (r == 0 or sign(r) == sign(x)) or not abs(r) < abs(y): bad.append("rem sign/magnitude")
    if not (m == 0 or sign(m) == sign(y)) or not abs(m) < abs(y): bad.append("mod sign/magnitude")
    if (x - m) / y != (x - m) // y: bad.append("mod not congruent to x")
    if bad:
        print(f"REPRODUCED: x={x} y={y}: quot={q!r} rem={r!r} mod={m!r}: " + "; ".join(bad)); sys.exit(1)
else:
    from basilisp.lang import numbers as N
    def val(n):
        if n in CEX: return int(CEX[n])
        return Fraction(int(CEX[n + "_num"]), 3)
    a, b = val("a"), val("b")
    op = META["what"]
    got = getattr(N, op)(a, b)
    want = {"add": lambda: Fraction(a) + Fraction(b), "subtract": lambda: Fraction(a) - Fraction(b), "multiply": lambda: Fraction(a) * Fraction(b),
            "divide": lambda: Fraction(a) / Fraction(b)}[op]()
    if got != want or not norm_ok(got) or (type(got) is int) != (want.denominator == 1):
        print(f"REPRODUCED: numbers.{op}({a!r}, {b!r}) = {got!r}, exact value {want}"); sys.exit(1)
    if op in ("add", "multiply") and type(getattr(N, op)(b, a)) is not type(got):
        print(f"REPRODUCED: numbers.{op} result type depends on operand order for {a!r}, {b!r}"); sys.exit(1)
print("HOLDS")
'''


def run_B(rep, tier):
    import json as _json
    import os as _os
    import subprocess as _sp

    from .. import env
    from ..env import INCONCLUSIVE, PROVED, REFUTED, Result
    from ..pysym.interp import Interp
    from ..pysym.run import check, run_parallel

    quick = tier == "quick"
    only_ = getattr(rep, "only", None)
    if only_ and not ("ir/" in only_ or "numbers/" in only_ or only_ in ("quot", "rem", "mod")):
        return
    script = _os.path.join(env.scratch(), "ir_capture.py")
    with open(script, "w") as f:
        f.write(IR_SCRIPT)
    e = env.child_env()
    e["PYTHONPATH"] = env.plain_pythonpath()
    r = _sp.run([env.PLAIN_PY, script, _os.path.join(env.REPO, "src/basilisp/core.lpy")], env=e, capture_output=True, text=True, timeout=300)
    if r.returncode != 0 or "def mod" not in r.stdout:
        raise env.HarnessError("cannot capture the compiler IR of the arithmetic functions: " + r.stderr[-800:])
    ir = r.stdout
    rep.extra["compiler_ir_functions"] = sorted(set(l.split("(")[0][4:] for l in ir.splitlines() if l.startswith("def ")))[:40]
    jobs = []
    for what in ("quot", "rem", "mod"):
        if what != "rem":   # rem's sign correction makes the symbolic-divisor query nonlinear beyond z3's reach: divisors enumerated below
            jobs.append((f"ir/{what}/x-any-int/y-symbolic(-12..12)", qrm_scenario(ir, "sym", what), {"what": what}))
        else:
            for y in ([1, -1, 2, -3, 7, -12] if quick else [s_ * d for d in range(1, 13) for s_ in (1, -1)]):
                jobs.append((f"ir/rem/x-any-int/y={y}", qrm_scenario(ir, y, what), {"what": what}))
        for y in ([2 ** 53 + 1, -(10 ** 23)] if quick else [2 ** 53 + 1, -(2 ** 53 + 1), 10 ** 23, -(10 ** 23), 2 ** 64, -(2 ** 64) + 1]):
            jobs.append((f"ir/{what}/x-any-int/y={y}", qrm_scenario(ir, y, what), {"what": what}))
        for den, y in ([(2, 3), (3, -2)] if quick else [(2, 3), (3, -2), (4, 5), (5, -7), (6, 5)]):
            jobs.append((f"ir/{what}/x=p/{den}/y={y}", ratio_scenario(ir, den, y, what), {"what": what}))
    for op, sc in type_contagion_scenarios().items():
        jobs.append((f"numbers/{op}/exact+type-by-operand-types", sc, {"what": op}))
    only = getattr(rep, "only", None)
    if only:
        jobs = [j for j in jobs if only in j[0]]
    if not jobs:
        return
    results = run_parallel([(lambda sc=sc: check(sc, lambda: Interp(), timeout_s=240, max_paths=3000)) for _, sc, _ in jobs])
    for (name, _, meta), r in zip(jobs, results):
        rep.solver_s += r["stats"]["solver_s"]
        rep.queries += r["stats"]["queries"]
        res = Result(name, INCONCLUSIVE, engine="B:pysym+z3 on the compiler's IR", secs=r["secs"], stats=r["stats"],
                     bound="dividend unbounded (z3 Int / exact Real); divisor as named")
        if r["status"] == "proved":
            res.verdict, res.detail = PROVED, f"unsat on all {r['stats']['paths']} paths"
        elif r["status"] == "refuted":
            res.witness = {"inputs": r["cex"], "observed": r.get("extra")}
            from ..chx.lisp import PRELUDE
            path = env.write_replay(rep.prop, name, PRELUDE + B_REPLAY.replace("@NAME@", name).replace("@CEX@", repr(r["cex"])).replace("@META@", repr(meta)))
            ok, line = env.replay_reproduces(path, timeout=120)
            if ok:
                res.verdict, res.replay, res.reproduced, res.detail = REFUTED, path, True, line[:300]
                rep.classify_refutation(res, {"kind": "ir-" + meta["what"]}, line[:200])
            else:
                rep.nonrepro += 1
                res.detail = "model " + _json.dumps(r["cex"])[:200] + " does not reproduce on the real functions: " + line[:150]
        elif r["status"] == "error":
            raise env.HarnessError(f"PySym crashed on {name}: {r['message']}")
        else:
            res.detail = r["message"][:300]
        rep.add(res)


CONTAGION = MODULE + r'''
from decimal import Decimal
U = [0, 1, -7, 10**30, Fraction(1, 2), Fraction(-7, 3), Fraction(10**20, 3), Decimal("0.5"), Decimal("-3"), Decimal("1E+3"), 0.5, -2.0, 1e300]
ORDER = {int: 0, Fraction: 1, Decimal: 2, float: 3}
OPS = {"+": cfn("+"), "-": cfn("-"), "*": cfn("*"), "/": cfn("/")}
APPLY = cfn("apply")
def kind(v):
    return Fraction if isinstance(v, Fraction) else type(v)
def expected_type(op, a, b):
    """the documented tower: float absorbs everything, Decimal absorbs exact numbers, exact results are ints when integral"""
    ka, kb = kind(a), kind(b)
    top = ka if ORDER[ka] >= ORDER[kb] else kb
    return top
def DIAG(**k):
    a, b = U[k["i"]], U[k["j"]]
    out = {}
    for n, f in OPS.items():
        try:
            out[n] = repr(f(a, b))
        except Exception as e:
            out[n] = type(e).__name__
    return {"a": repr(a), "b": repr(b), **out}
'''


def contagion_spec(timeout, first):
    body = f'''    a = U[{first}]
    b = None
    for k in range(13):          # explicit selection: one path per second operand, concrete values on every path
        if j == k:
            b = U[k]
    for name, f in OPS.items():
        if name == "/" and b == 0:
            continue
        r = f(a, b)
        want = expected_type(name, a, b)
        if want in (int, Fraction):
            exact = {{"+": lambda: Fraction(a) + Fraction(b), "-": lambda: Fraction(a) - Fraction(b), "*": lambda: Fraction(a) * Fraction(b),
                     "/": lambda: Fraction(a) / Fraction(b)}}[name]()
            if r != exact or not norm_ok(r) or (type(r) is int) != (exact.denominator == 1):
                return False
        elif type(r) is not want:
            return False
        # the result type depends only on the operand types: same answer through apply, and symmetric for + and *
        r2 = APPLY(f, vec.vector([a, b]))
        if type(r2) is not type(r) or not (r2 == r or (r != r and r2 != r2)):
            return False
        if name in "+*":
            r3 = f(b, a)
            if type(r3) is not type(r) or not (r3 == r or (r != r and r3 != r3)):
                return False
    return True'''
    src = harness("j: int", body, pre=["0 <= j < 13"], module_code=CONTAGION.replace("U[k[\"i\"]]", f"U[{first}]"), warm=[(4,)])
    return Spec(f"type-contagion/first-operand-{first}", src, timeout=timeout, bound="operand pair solver-chosen from a 13-element universe of int / ratio / decimal / float values incl. huge ones",
                meta={"kind": "contagion"})


def run(rep, tier, seed):
    rep.encoded("src/basilisp/lang/numbers.py", ["add", "subtract", "multiply", "divide", "_divide_ints", "trunc",
                                                  "_trunc_fraction", "_normalize_fraction_result"],
                "executed on CrossHair proxies (real module)")
    rep.encoded_lisp("src/basilisp/core.lpy", ["+", "-", "*", "/", "quot", "rem", "mod", "inc", "dec"],
                     "compiled by the real compiler from the current source, executed on proxies")
    quick = tier == "quick"
    to = 25 if quick else 90
    small = [1, 2, 3, 5, 7, 12] if quick else list(range(1, 13))
    divisors = [s * d for d in small for s in (1, -1)]
    huge = [2**53 + 1, -(10**23)] if quick else [2**53 + 1, -(2**53 + 1), 10**23, -(10**23), 2**64, -(2**64) + 1]
    specs = [] if quick else [qrm_spec(str(y), str(y), to) for y in divisors + huge]
    for den in ([] if quick else [2, 3, 4, 5, 6]):
        for ye, tag in ([("3", "3"), ("-2", "-2")] if quick else
                        [("3", "3"), ("-2", "-2"), ("Fraction(7, 3)", "7/3"), ("Fraction(-1, 2)", "-1/2"), ("5", "5")]):
            specs.append(qrm_ratio_spec(den, ye, tag, to))
    specs += [contagion_spec(to * 2, f) for f in range(13)]
    specs.append(arith_spec("+", "x + y", "y", "y", "add", to))
    specs.append(arith_spec("-", "x - y", "y", "y", "sub", to))
    specs.append(arith_spec("*", "x * y", "y", "y", "mul-symbolic-y", to))
    for y in ([3, -4] if quick else [2, 3, -4, 6, 10, -7]):
        specs.append(arith_spec("*", "x * y", "", str(y), f"mul-y={y}", to))
        specs.append(arith_spec("/", "Fraction(x, y) if Fraction(x, y).denominator != 1 else Fraction(x, y).numerator", "",
                                str(y), f"div-y={y}", to))
    for op in ("add", "sub", "mul"):
        specs.append(inline_spec(op, None, to))
    for y in ([3, -2] if quick else [1, 3, -2, 7, -12]):
        specs.append(inline_spec("div", y, to))
    if not quick:
        for op in ("quot", "rem", "mod"):
            for y in [1, 3, -2, 7, -12]:
                specs.append(inline_spec(op, y, to))
    for y in ([1, -1, 2, -3, 5, -7] if quick else divisors):
        specs.append(qrm_bounded_spec(y, to * 4))
    rep.bounds = {"dividend": "unbounded Python int (z3 Int)", "divisors": divisors + huge,
                  "ratio_denominators": [2, 3] if quick else [2, 3, 4, 5, 6], "per_condition_timeout_s": to}
    rep.outside = ["symbolic x symbolic division (nonlinear): divisors are enumerated", "float/decimal operand values",
                   "operand type contagion is decided separately (dispatch-table obligations)"]
    rep.assumptions += ["CrossHair's int/Fraction models agree with CPython (checked on WARM inputs and on every replay)"]
    rep.trusted += ["crosshair-tool 0.0.110 + z3 5.1.0", "vlib/chx/shim.py singledispatch type() dispatch"]
    rep.extra["explanation"] = ("Each obligation runs the real compiled core functions and basilisp.lang.numbers on a "
                                "CrossHair symbolic int; z3 decides every branch; 'PROVED-IN-BOUND' = path tree exhausted.")

    def matcher(spec, cex):
        return {"kind": spec.meta["kind"], **{k: v for k, v in spec.meta.items() if k in ("op",)}}

    run_specs(rep, specs, matcher, lambda s, c: f"{s.name} fails on {c}")
    run_B(rep, tier)
