"""Pattern grammar for C09: destructuring patterns over the documented vocabulary (docs/concepts.rst, "Destructuring"),
generated to nesting depth <= 3, each with its Lisp source and a Python description from which the harness derives
(a) the reference bindings via the real nth / nthnext / get and (b) a family of values (conforming, short, nil, wrongly typed).

pattern  := ("sym", name)
          | ("vec", [pattern...], rest_name | None, as_name | None)
          | ("map", [entry...], {name: (lisp default src, python default expr)}, as_name | None)
entry    := ("keys", ns | None, [name...]) | ("strs", [name...]) | ("syms", ns | None, [name...])
          | ("named", pattern, key)         key := ("kw", ns, name) | ("str", s) | ("sym", ns, name) | ("int", i)
"""
from __future__ import annotations

import random
from typing import List

DEFAULTS = [("false", "False"), ("nil", "None"), ("0", "0"), ("7", "7"), ('"s"', "'s'"), (":k", "K('k')"), ("(inc 1)", "2")]


class Namer:
    def __init__(self):
        self.n = 0

    def __call__(self):
        self.n += 1
        return f"n{self.n}"


def src(p) -> str:
    if p[0] == "sym":
        return p[1]
    if p[0] == "vec":
        _, ch, rest, as_ = p
        parts = [src(c) for c in ch]
        if rest:
            parts += ["&", rest]
        if as_:
            parts += [":as", as_]
        return "[" + " ".join(parts) + "]"
    _, entries, ors, as_ = p
    parts = []
    for e in entries:
        if e[0] == "keys":
            parts.append((f":{e[1]}/keys" if e[1] else ":keys") + " [" + " ".join(e[2]) + "]")
        elif e[0] == "strs":
            parts.append(":strs [" + " ".join(e[1]) + "]")
        elif e[0] == "syms":
            parts.append((f":{e[1]}/syms" if e[1] else ":syms") + " [" + " ".join(e[2]) + "]")
        else:
            parts.append(src(e[1]) + " " + key_src(e[2]))
    if ors:
        parts.append(":or {" + " ".join(f"{n} {d[0]}" for n, d in ors.items()) + "}")
    if as_:
        parts.append(":as " + as_)
    return "{" + " ".join(parts) + "}"


def key_src(k) -> str:
    if k[0] == "kw":
        return f":{k[1]}/{k[2]}" if k[1] else f":{k[2]}"
    if k[0] == "str":
        return '"' + k[1] + '"'
    if k[0] == "sym":
        return "'" + (f"{k[1]}/{k[2]}" if k[1] else k[2])
    return str(k[1])


def names(p) -> List[str]:
    if p[0] == "sym":
        return [p[1]]
    out = []
    if p[0] == "vec":
        for c in p[1]:
            out += names(c)
        out += [x for x in (p[2], p[3]) if x]
        return out
    for e in p[1]:
        if e[0] in ("keys", "syms"):
            out += e[2]
        elif e[0] == "strs":
            out += e[1]
        else:
            out += names(e[1])
    if p[3]:
        out.append(p[3])
    return out


def compound_nodes(p) -> int:
    if p[0] == "sym":
        return 0
    if p[0] == "vec":
        return 1 + sum(compound_nodes(c) for c in p[1])
    return 1 + sum(compound_nodes(e[1]) for e in p[1] if e[0] == "named")


def featured():
    """patterns every run includes: each key style x every kind of :or default (falsey, nil, computed), quoted-symbol keys
    with defaults, the documentation's own examples"""
    out = []
    d1 = {"a": DEFAULTS[0], "b": DEFAULTS[1]}     # false, nil
    d2 = {"c": DEFAULTS[2], "d": DEFAULTS[6]}     # 0, (inc 1)
    for tag, d, ns_ in (("falsey", d1, ["a", "b"]), ("zero-computed", d2, ["c", "d"])):
        out.append((f"keys-{tag}-defaults", ("map", [("keys", None, ns_)], d, None)))
        out.append((f"strs-{tag}-defaults", ("map", [("strs", ns_)], d, "m")))
        out.append((f"syms-{tag}-defaults", ("map", [("syms", None, ns_)], d, None)))
        out.append((f"ns-keys-{tag}-defaults", ("map", [("keys", "q", ns_)], d, None)))
        out.append((f"ns-syms-{tag}-defaults", ("map", [("syms", "q", ns_)], d, None)))
    out.append(("named-kw-qsym-keys-with-defaults", ("map", [("named", ("sym", "a"), ("kw", None, "a")), ("named", ("sym", "b"), ("sym", "q", "b"))],
                                                     {"a": DEFAULTS[0], "b": DEFAULTS[3]}, None)))
    out.append(("named-str-int-keys-with-defaults", ("map", [("named", ("sym", "c"), ("str", "c")), ("named", ("sym", "d"), ("int", 0))],
                                                     {"c": DEFAULTS[1], "d": DEFAULTS[4]}, None)))
    out.append(("doc-nested-example", ("vec", [("map", [("keys", None, ["a"]), ("named", ("vec", [("sym", "e"), ("sym", "f")], None, None), ("kw", None, "d"))], {}, None),
                                               ("vec", [("sym", "b"), ("sym", "c")], None, None)], None, None)))
    out.append(("doc-namespaced-example", ("map", [("named", ("sym", "a"), ("kw", None, "a")), ("named", ("sym", "b"), ("sym", "a", "b")),
                                                    ("keys", "c", ["c"]), ("syms", "c", ["d"])], {}, None)))
    out.append(("vec-rest-as-depth3", ("vec", [("vec", [("vec", [("sym", "a"), ("sym", "b")], "r1", None), ("sym", "c")], None, "in"), ("sym", "d")], "r", "all")))
    out.append(("map-in-map-in-vec", ("vec", [("map", [("named", ("map", [("keys", None, ["a"])], {"a": DEFAULTS[0]}, "inner"), ("kw", None, "x"))], {}, "outer")], None, None)))
    return out


def random_pattern(rnd: random.Random, depth: int, nm: Namer):
    if depth == 0 or rnd.random() < 0.25:
        return ("sym", nm())
    if rnd.random() < 0.5:
        n = rnd.randint(0, 3)
        ch = [random_pattern(rnd, depth - 1, nm) for _ in range(n)]
        rest = nm() if rnd.random() < 0.4 else None
        as_ = nm() if rnd.random() < 0.4 else None
        if not ch and not rest and not as_:
            ch = [("sym", nm())]
        return ("vec", ch, rest, as_)
    entries, ors = [], {}
    for style in rnd.sample(["keys", "strs", "syms", "nskeys", "nssyms", "named", "named"], rnd.randint(1, 3)):
        ns_ = [nm() for _ in range(rnd.randint(1, 2))]
        if style == "keys":
            entries.append(("keys", None, ns_))
        elif style == "strs":
            entries.append(("strs", ns_))
        elif style == "syms":
            entries.append(("syms", None, ns_))
        elif style == "nskeys":
            entries.append(("keys", "q", ns_))
        elif style == "nssyms":
            entries.append(("syms", "q", ns_))
        else:
            ns_ = []
            child = random_pattern(rnd, depth - 1, nm)
            key = rnd.choice([("kw", None, nm()), ("kw", "q", nm()), ("str", nm()), ("sym", None, nm()), ("sym", "q", nm()), ("int", rnd.randint(0, 1))])
            entries.append(("named", child, key))
            if child[0] == "sym":
                ns_ = [child[1]]
        for n in ns_:
            if rnd.random() < 0.4:
                ors[n] = rnd.choice(DEFAULTS)
    return ("map", entries, ors, nm() if rnd.random() < 0.4 else None)


def generate(seed: int, count: int, max_compound: int = 4, max_names: int = 7):
    rnd = random.Random(seed)
    out = list(featured())
    seen = {src(p) for _, p in out}
    tries = 0
    while len(out) < len(featured()) + count and tries < 10000:
        tries += 1
        p = random_pattern(rnd, 3, Namer())
        if p[0] == "sym" or compound_nodes(p) > max_compound or len(names(p)) > max_names or src(p) in seen:
            continue
        seen.add(src(p))
        out.append((f"random-{len(out)}", p))
    return out
