"""C07 — sequence functions, their transducers and the reference model agree (Engine A)."""
from __future__ import annotations

import itertools
import random

from ..chx.driver import Spec
from ..chx.flow import run_specs
from ..chx.lisp import harness

LEVEL = "other"

# name -> (lisp seq form over (n coll), lisp xf over (n), python reference over (xs, n), n range or None)
FUNS = {
    "map": ("(map vector COLL)", "(map vector)", "[[x] for x in xs]", None),
    "map-nil?": ("(map nil? COLL)", "(map nil?)", "[x is None for x in xs]", None),
    "filter-some": ("(filter some? COLL)", "(filter some?)", "[x for x in xs if x is not None]", None),
    "filter-identity": ("(filter identity COLL)", "(filter identity)", "[x for x in xs if truthy(x)]", None),
    "remove-identity": ("(remove identity COLL)", "(remove identity)", "[x for x in xs if not truthy(x)]", None),
    "keep-identity": ("(keep identity COLL)", "(keep identity)", "[x for x in xs if x is not None]", None),
    "keep-indexed": ("(keep-indexed (fn [i x] (if (= i 1) nil x)) COLL)", "(keep-indexed (fn [i x] (if (= i 1) nil x)))",
                     "[x for i, x in enumerate(xs) if i != 1 and x is not None]", None),
    "map-indexed": ("(map-indexed vector COLL)", "(map-indexed vector)", "[[i, x] for i, x in enumerate(xs)]", None),
    "take": ("(take n COLL)", "(take n)", "xs[:n]", (0, 2)),
    "take-while": ("(take-while some? COLL)", "(take-while some?)", "list(itertools.takewhile(lambda x: x is not None, xs))", None),
    "take-nth": ("(take-nth n COLL)", "(take-nth n)", "xs[::n]", (1, 2)),
    "drop": ("(drop n COLL)", "(drop n)", "xs[n:]", (0, 2)),
    "drop-while": ("(drop-while some? COLL)", "(drop-while some?)", "list(itertools.dropwhile(lambda x: x is not None, xs))", None),
    "interpose": ("(interpose 7 COLL)", "(interpose 7)", "[y for x in xs for y in (7, x)][1:]", None),
    "partition-all": ("(partition-all n COLL)", "(partition-all n)", "[xs[i:i + n] for i in range(0, len(xs), n)]", (1, 2)),
    "partition-by": ("(partition-by nil? COLL)", "(partition-by nil?)",
                     "[list(g) for _, g in itertools.groupby(xs, key=lambda x: x is None)]", None),
    "distinct": ("(distinct COLL)", "(distinct)", "ref_distinct(xs)", None),
    "dedupe": ("(dedupe COLL)", "(dedupe)", "ref_dedupe(xs)", None),
    "mapcat": ("(mapcat (fn [x] [x x]) COLL)", "(mapcat (fn [x] [x x]))", "[y for x in xs for y in (x, x)]", None),
    "cat": ("(mapcat identity (map vector COLL))", "(comp (map vector) cat)", "list(xs)", None),
}

FORMS = {
    "lazy-seq": None,
    "into": "(fn [xf coll] (into [] xf coll))",
    "sequence": "(fn [xf coll] (sequence xf coll))",
    "transduce": "(fn [xf coll] (transduce xf conj coll))",
    "eduction": "(fn [xf coll] (eduction xf coll))",
}

MODULE = r'''
import itertools
def truthy(x):
    return not (x is None or x is False)
def canon(x):
    if x is None:
        return ("nil",)
    if isinstance(x, bool):
        return ("b", bool(x))
    if isinstance(x, int):
        return ("i", int(x))
    if isinstance(x, kw.Keyword):
        return ("k", x.name)
    if isinstance(x, (list, tuple)):
        return ("c", [canon(e) for e in x])
    return ("c", [canon(e) for e in seq_list(x)])
def leq(a, b):
    return canon(a) == canon(b)
TABLE = [None, False, True, 0, 1, 2, kw.keyword("a")]      # the property's element universe {nil, false, 0, 1, 2, :a} plus true
def E(c):
    """element for code c, by an explicit chain (one path per value, concrete elements on every path)"""
    for k in range(len(TABLE)):
        if c == k:
            return TABLE[k]
    return None
def decode(ln, cs):
    xs = []
    for i in range(len(cs)):
        if i < ln:                 # codes beyond the chosen length are never read (no paths spent on them)
            xs.append(E(cs[i]))
    return xs
def conflated(xs):
    """does the input contain a boolean together with the number Python considers equal to it?"""
    cs = [canon(x) for x in xs]
    return (("b", False) in cs and ("i", 0) in cs) or (("b", True) in cs and ("i", 1) in cs)
def ref_distinct(xs):
    out = []
    for x in xs:
        if not any(leq(x, y) for y in out):
            out.append(x)
    return out
def ref_dedupe(xs):
    out = []
    for x in xs:
        if not out or not leq(out[-1], x):
            out.append(x)
    return out
'''


def mk_spec(fnames, form, maxlen, timeout, colltype="vector", n_range=None, conflate=False):
    """pipeline = composition of FUNS[f] for f in fnames (applied left to right to the data)"""
    needs_n = [f for f in fnames if FUNS[f][3] is not None]
    lo = max([FUNS[f][3][0] for f in needs_n], default=0)
    hi = min([FUNS[f][3][1] for f in needs_n], default=0)
    if n_range is not None:
        lo, hi = n_range
    # lisp
    if form == "lazy-seq":
        expr = "coll"
        for f in fnames:
            expr = FUNS[f][0].replace("COLL", expr)
        lisp = f"(fn [n coll] {expr})"
        call = "F(n, coll)"
    else:
        xfs = " ".join(FUNS[f][1] for f in fnames)
        lisp_xf = f"(fn [n] (comp {xfs}))" if len(fnames) > 1 else f"(fn [n] {xfs})"
        lisp = lisp_xf
        call = "APPLY(F(n), coll)"
    ref = "xs"
    pyref = "    r = list(xs)\n"
    for f in fnames:
        pyref += f"    xs = r\n    r = {FUNS[f][2]}\n"
    mk_coll = {"vector": "vec.vector(xs)", "list": "llist.list(xs)", "lazy": "cfn('map')(cfn('identity'), vec.vector(xs))",
               "pyiter": "cfn('seq')(list(xs))"}[colltype]
    module = MODULE + f'''
F = lisp_eval({lisp!r}, "verif.c07")
APPLY = {("lisp_eval(" + repr(FORMS[form]) + ', "verif.c07")') if FORMS[form] else "None"}
def REF(xs, n):
{pyref}    return r
def RUN(xs, n):
    coll = {mk_coll}
    return {call}
def DIAG(**k):
    xs = decode(k["ln"], [k[f"c{{i}}"] for i in range({maxlen})])
    return ("input", canon(xs), "n", k["n"], "got", canon(RUN(xs, k["n"])), "expected", canon(REF(list(xs), k["n"])))
'''
    cs = ", ".join(f"c{i}" for i in range(maxlen))
    skip = ""
    if "distinct" in fnames:
        # booleans and the numbers equal to them are conflated by sets (recorded finding, isolated in its own obligation)
        skip = f"    if conflated(xs) != {bool(conflate)}:\n        return True\n"
    body = f'''    xs = decode(ln, [{cs}])
{skip}    expect = canon(REF(list(xs), n))
    got = canon(RUN(xs, n))
    return got == expect'''
    name = f"{'+'.join(fnames)}/{form}/{colltype}" + ("/bool-with-equal-number" if conflate else "")
    sig = "ln: int, " + ", ".join(f"c{i}: int" for i in range(maxlen)) + ", n: int"
    pre = [f"0 <= ln <= {maxlen}"] + [f"0 <= c{i} < 7" for i in range(maxlen)] + [f"{lo} <= n <= {hi}"]
    src = harness(sig, body, pre=pre, module_code=module, warm=[])
    return Spec(name, src, timeout=timeout, bound=f"len(xs) <= {maxlen}, elements from {{nil, false, true, 0, 1, 2, :a}} (every list), n in {lo}..{hi}",
                meta={"fns": list(fnames), "form": form, "coll": colltype, "conflate": bool(conflate)})


EARLY_COUNTING = r'''
class Counting:
    """a Python iterator that counts how many elements were pulled"""
    def __init__(self, xs):
        self.xs, self.i = list(xs), 0
    def __iter__(self):
        return self
    def __next__(self):
        if self.i >= len(self.xs):
            raise StopIteration
        self.i += 1
        return self.xs[self.i - 1]
'''
EARLY = EARLY_COUNTING + r'''
TAKE_INTO = lisp_eval("(fn [n coll] (into [] (take n) coll))", "verif.c07")
TAKE_TRANSDUCE = lisp_eval("(fn [n rf coll] (transduce (comp (take n) (map identity)) rf coll))", "verif.c07")
TAKE_SEQ = lisp_eval("(fn [n coll] (doall (take n coll)))", "verif.c07")
TAKE_INF = lisp_eval("(fn [n k] [(into [] (comp (drop k) (take n)) (range)) (doall (take n (drop k (iterate inc 0)))) (into [] (take n) (cycle [k])) (doall (take n (repeat k))) (doall (take n (iterate not true))) (doall (take n (iterate (fn [x] (when-not x 1)) nil)))])", "verif.c07")
def DIAG(**k):
    return k
'''


SLACK = {"partition-all": "n + 1", "partition-by": "2", "take-nth": "n + 1"}    # elements a stateful step must see beyond the reference's prefix


def pulls_spec(f, timeout):
    """(into [] (comp <f> (take n)) <counting iterator over 10 elements>) must stop pulling input once n outputs exist:
    pulls <= (shortest prefix on which the reference already yields n outputs) + the step's own look-ahead"""
    xf = FUNS[f][1]
    pyref = f"    r = {FUNS[f][2]}\n"
    module = MODULE + EARLY_COUNTING + f'''
XF = lisp_eval("(fn [n coll] (into [] (comp {xf} (take n)) coll))", "verif.c07")
XF_SEQ = lisp_eval("(fn [n coll] (doall (sequence (comp {xf} (take n)) coll)))", "verif.c07")
DATA = [0, None, 1, False, 2, None, 3, False, 4, None]
def REF(xs, n):
{pyref}    return r
def needed(n):
    for L in range(len(DATA) + 1):
        if len(REF(DATA[:L], n)) >= n:
            return L
    return len(DATA)
def DIAG(**k):
    it = Counting(DATA)
    got = XF(k["n"], cfn("iterator-seq")(it))
    return ("n", k["n"], "pulled", it.i, "needed-by-reference", needed(k["n"]), "result", canon(got))
'''
    body = f'''    it = Counting(DATA)
    got = seq_list(XF(n, cfn("iterator-seq")(it)))
    if canon(got) != canon(REF(list(DATA), n)[:n]):
        return False
    if it.i > min(len(DATA), needed(n) + ({SLACK.get(f, "0")})):
        return False
    it2 = Counting(DATA)
    got2 = seq_list(XF_SEQ(n, cfn("iterator-seq")(it2)))
    return canon(got2) == canon(got)'''
    src = harness("n: int", body, pre=["1 <= n <= 2"], module_code=module, warm=[])
    return Spec(f"early-termination/{f}+take/pulls", src, timeout=timeout, bound="a 10-element input behind a counting iterator; n in 1..2",
                meta={"fns": [f, "take"], "form": "early-pulls", "conflate": False})


def reuse_spec(f, maxlen, timeout, n_fixed=None):
    """one transducer *value* applied several times (into, sequence, transduce, eduction, into again): state belongs to an
    application, not to the value, so every application must give the reference result"""
    xf = FUNS[f][1]
    lo, hi = FUNS[f][3] if FUNS[f][3] is not None else (0, 0)
    pyref = f"    r = {FUNS[f][2]}\n"
    module = MODULE + f'''
MKXF = lisp_eval("(fn [n] {xf})", "verif.c07")
APPS = [lisp_eval(src, "verif.c07") for src in ("(fn [xf coll] (into [] xf coll))", "(fn [xf coll] (doall (sequence xf coll)))",
                                                "(fn [xf coll] (transduce xf conj coll))", "(fn [xf coll] (vec (eduction xf coll)))",
                                                "(fn [xf coll] (into [] xf coll))")]
def REF(xs, n):
{pyref}    return r
def DIAG(**k):
    xs = decode(k["ln"], [k[f"c{{i}}"] for i in range({maxlen})])
    xf = MKXF(k["n"])
    return ("input", canon(xs), "n", k["n"], "applications", [canon(a(xf, vec.vector(xs))) for a in APPS], "expected", canon(REF(list(xs), k["n"])))
'''
    cs = ", ".join(f"c{i}" for i in range(maxlen))
    skip = "    if conflated(xs):\n        return True\n" if f == "distinct" else ""
    body = f'''    xs = decode(ln, [{cs}])
{skip}    expect = canon(REF(list(xs), n))
    xf = MKXF(n)
    for app in APPS:
        if canon(app(xf, vec.vector(xs))) != expect:
            return False
    return True'''
    sig = "ln: int, " + ", ".join(f"c{i}: int" for i in range(maxlen)) + ", n: int"
    if n_fixed is not None:
        lo = hi = n_fixed
    pre = [f"0 <= ln <= {maxlen}"] + [f"0 <= c{i} < 7" for i in range(maxlen)] + [f"{lo} <= n <= {hi}"]
    return Spec(f"xform-value-reused/{f}" + (f"/n={n_fixed}" if n_fixed is not None else ""), harness(sig, body, pre=pre, module_code=module, warm=[]), timeout=timeout,
                bound=f"one transducer value, 5 applications; len(xs) <= {maxlen}, elements from the 7-value universe, n in {lo}..{hi}",
                meta={"fns": [f], "form": "reuse", "conflate": False})


def early_specs(maxlen, timeout):
    out = []
    body = '''    it = Counting(xs)
    got = seq_list(TAKE_INTO(n, cfn("iterator-seq")(it)))
    # a reduction stopped by `take` must not consume input beyond what it needs ((take 0) still has to be called once)
    return [x for x in got] == list(xs)[:n] and it.i <= min(len(xs), max(n, 1))'''
    out.append(Spec("early-termination/into-take/pulls", harness("xs: List[int], n: int", body, pre=[f"len(xs) <= {maxlen}", "0 <= n <= 3"],
                                                                 module_code=EARLY, warm=[([1, 2, 3], 1)]),
                    timeout=timeout, bound=f"len(xs) <= {maxlen}, n in 0..3", meta={"fns": ["take"], "form": "early"}))
    body = '''    completions = []
    def rf(*a):
        if len(a) == 0:
            return []
        if len(a) == 1:
            completions.append(1)
            return a[0]
        a[0].append(a[1])
        return a[0]
    got = TAKE_TRANSDUCE(n, rf, vec.vector(xs))
    return list(got) == list(xs)[:n] and len(completions) == 1'''
    out.append(Spec("early-termination/transduce-take/completion-once", harness("xs: List[int], n: int", body,
                                                                                pre=[f"1 <= len(xs) <= {maxlen}", "0 <= n <= 3"], module_code=EARLY,
                                                                                warm=[([1, 2, 3], 1)]),
                    timeout=timeout, bound=f"len(xs) <= {maxlen}, n in 0..3", meta={"fns": ["take"], "form": "completion"}))
    body = '''    a, b, c, d, e, f = TAKE_INF(n, k)
    exp = list(range(k, k + n))
    return (seq_list(a) == exp and seq_list(b) == exp and seq_list(c) == [k] * n and seq_list(d) == [k] * n
            and seq_list(e) == [True, False, True][:n] and seq_list(f) == [None, 1, None][:n])'''
    out.append(Spec("infinite-inputs/range-iterate-cycle-repeat", harness("n: int, k: int", body, pre=["0 <= n <= 3", "0 <= k <= 3"],
                                                                          module_code=EARLY, warm=[(2, 1)]),
                    timeout=timeout, bound="n, k in 0..3", meta={"fns": ["take", "drop"], "form": "infinite"}))
    return out


def run(rep, tier, seed):
    quick = tier == "quick"
    rep.encoded_lisp("src/basilisp/core.lpy", sorted(set(f.split("-")[0] if f in ("map-nil?", "filter-some", "filter-identity",
                     "remove-identity", "keep-identity") else f for f in FUNS)) + ["into", "sequence", "transduce", "eduction", "comp", "reduce"],
                     "compiled by the real compiler; run on CrossHair proxies")
    rep.encoded("src/basilisp/lang/runtime.py", ["internal_reduce"], "executed on proxies")
    maxlen = 2
    to = 45 if quick else 120
    specs = []
    for f in FUNS:
        for form in FORMS:
            specs.append(mk_spec([f], form, maxlen, to))
            if f == "distinct":
                specs.append(mk_spec([f], form, maxlen, to, conflate=True))
        if not quick:
            specs.append(mk_spec([f], "into", 3, to * 2))        # thorough: every list of length <= 3 through one application form
    for f in FUNS:
        if f != "take":
            specs.append(pulls_spec(f, to))
        if FUNS[f][3] is None:
            specs.append(reuse_spec(f, maxlen, to * 2))
        else:
            specs += [reuse_spec(f, maxlen, to * 2, nv) for nv in range(FUNS[f][3][0], FUNS[f][3][1] + 1)]
    rnd = random.Random(seed)
    # early termination is where stateful transducers interact: every function followed by `take` (the terminating step is
    # called again by mapcat / cat / interpose / partition-by after it has returned `reduced`) and `take` followed by every function
    for f in FUNS:
        if FUNS[f][3] is None:
            specs.append(mk_spec([f, "take"], "into", 2, to, n_range=(1, 2)))
            if not quick:
                specs.append(mk_spec(["take", f], "into", 2, to, n_range=(1, 2)))
                specs.append(mk_spec([f, "take"], "sequence", 2, to, n_range=(1, 2)))
                specs.append(mk_spec([f, "take"], "eduction", 2, to, n_range=(1, 2)))
    pairs = [p for p in itertools.permutations(FUNS, 2) if sum(1 for f in p if FUNS[f][3]) <= 1]
    rnd.shuffle(pairs)
    for p in pairs[:(4 if quick else 20)]:
        for form in (["into", "lazy-seq"] if quick else ["into", "lazy-seq", "sequence", "transduce"]):
            specs.append(mk_spec(list(p), form, 2, to))
    if not quick:
        triples = [t for t in itertools.permutations(FUNS, 3) if sum(1 for f in t if FUNS[f][3]) <= 1]
        rnd.shuffle(triples)
        for t in triples[:10]:
            specs.append(mk_spec(list(t), "into", 2, to))
            specs.append(mk_spec(list(t), "sequence", 2, to))
        for f in FUNS:
            for ct in ("lazy",):
                specs.append(mk_spec([f], "into", 2, to, ct))
                specs.append(mk_spec([f], "lazy-seq", 2, to, ct))
    specs += early_specs(maxlen, to)
    rep.bounds = {"input_length": "<= 2; thorough: <= 3 through `into` for every single function", "elements": "every list over {nil, false, true, 0, 1, 2, :a} up to the length bound (solver-chosen codes)", "numeric params": "0..2 / 1..2",
                  "pipelines": f"all single functions x 5 application forms; {4 if quick else 20} sampled pairs (VERIF_SEED)"
                               + ("" if quick else "; 10 sampled triples; lazy-seq inputs")}
    rep.outside = ["inputs longer than the bound", "pipeline shapes are enumerated/sampled, not solver-chosen"]
    rep.trusted += ["crosshair-tool 0.0.110 + z3", "18 Python reference definitions in vlib/props/c07.py"]
    rep.assumptions += ["native LazySeq/Cons (Rust) only store and call what they are given (they run concretely under CrossHair)"]
    rep.extra["explanation"] = ("per pipeline, CrossHair explores every path of the real compiled core functions over a symbolic "
                                "input list; PROVED = path tree exhausted (all inputs within the length bound)")

    def matcher(spec, cex):
        m = spec.meta
        if m.get("conflate"):
            return {"kind": "distinct-conflates-boolean-with-equal-number"}
        return {"fns": "+".join(m["fns"]), "form": m["form"]}

    run_specs(rep, specs, matcher, lambda s, c: f"{s.name} differs from the reference on {c}")
