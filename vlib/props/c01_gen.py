"""Seeded generator of small well-formed programs over the special-form fragment (C01 / C02).

A program is  PRELUDE-free: one `(fn* [p0 p1 p2] BODY)`; the two Vars g0 / g1 it may read and re-def are reset by a separately
compiled function before every call (so a call's result does not depend on earlier calls).  Every loop is the bounded template
`(loop* [i 0 acc INIT] (if (< i K) ... (recur (inc i) NEW) FINAL))`; `recur` only appears in tail position.

What the productions are biased towards (the places where a code generator can go wrong without the existing tests noticing):
  * a local initialised by a *bare name* (another local, a parameter, a loop local, a Var) that is rebound afterwards
    (shadowing let*, recur, re-def), and then read — directly, from a closure created earlier, or from a `finally`;
  * closures created before a shadowing / rebinding and called after it;
  * try / catch / finally around recur and around throwing sub-expressions, `finally` logging locals through `(t [:k x] nil)`;
  * def in statement position of a function body followed by reads through the bare name.
Closures are never created inside loop bodies (that is the recorded known finding C01-closure-in-loop, kept in the fixed corpus).
"""
from __future__ import annotations

import random
from typing import List, Optional


class Scope:
    def __init__(self, vals: List[str], fns: List[str], loop: Optional[tuple] = None, arg: bool = False):
        self.vals, self.fns, self.loop, self.arg = list(vals), list(fns), loop, arg

    def child(self, vals=(), fns=(), loop="keep", arg=None):
        return Scope(self.vals + list(vals), self.fns + list(fns), self.loop if loop == "keep" else loop, self.arg if arg is None else arg)

    def as_arg(self):
        """operand position (vector element, call argument): statements of a compound operand are hoisted before earlier
        operands (the recorded C02 finding), so a re-def there could change what an earlier operand reads; no def is generated here"""
        return self.child(arg=True)


class Gen:
    def __init__(self, rnd: random.Random):
        self.rnd = rnd
        self.n = 0
        self.features = set()

    def fresh(self, base):
        self.n += 1
        return f"{base}{self.n}"

    def pick(self, xs):
        return xs[self.rnd.randrange(len(xs))]

    def leaf(self, sc: Scope) -> str:
        r = self.rnd.random()
        if r < 0.55 and sc.vals:
            return self.pick(sc.vals)
        if r < 0.7:
            return self.pick(["p0", "p1", "p2"])
        return self.pick(["0", "1", "2", "-1", "nil", "true", "false", ":k"])

    def cond(self, sc: Scope) -> str:
        r = self.rnd.random()
        a = self.leaf(sc)
        if r < 0.5:
            return a
        if r < 0.75:
            return f"(= {a} {self.leaf(sc)})"
        return f"(nil? {a})"

    def log(self, sc: Scope) -> str:
        k = self.fresh("k")
        x = self.pick(sc.vals) if sc.vals else "p0"
        return f"(t [:{k} {x}] nil)"

    def expr(self, d: int, sc: Scope, tail: bool = False) -> str:
        """an expression; `tail` = a recur to sc.loop is allowed here"""
        rnd = self.rnd
        if d <= 0:
            return self.leaf(sc)
        r = rnd.random()
        if r < 0.10:
            return self.leaf(sc)
        if r < 0.24:
            return f"(if {self.cond(sc)} {self.expr(d - 1, sc, tail)} {self.expr(d - 1, sc, tail)})"
        if r < 0.46:
            return self.let(d, sc, tail)
        if r < 0.54:
            return f"(do {self.log(sc)} {self.expr(d - 1, sc, tail)})"
        if r < 0.62:
            return "[" + " ".join(self.expr(d - 1, sc.as_arg()) for _ in range(rnd.randint(1, 3))) + "]"
        if r < 0.68:
            return f"({self.pick(['inc', 'dec', 'vector', 'not'])} {self.expr(d - 1, sc.as_arg())})"
        if r < 0.76 and sc.fns:
            self.features.add("closure-call")
            return f"({self.pick(sc.fns)})"
        if r < 0.84:
            return self.try_(d, sc, tail)
        if r < 0.92 and sc.loop is None:
            return self.loop(d, sc)
        if r < 0.93:
            return self.snapshot(d, sc, tail) if not sc.arg else self.leaf(sc)
        if r < 0.96:
            a = self.fresh("a")
            return f"((fn* [{a}] {self.expr(d - 1, sc.child([a], loop=None, arg=False))}) {self.expr(d - 1, sc.as_arg())})"
        return self.redef(d, sc, tail) if not sc.arg else self.leaf(sc)

    def let(self, d: int, sc: Scope, tail: bool) -> str:
        rnd = self.rnd
        binds, cur = [], sc
        for _ in range(rnd.randint(1, 3)):
            r = rnd.random()
            if r < 0.2 and cur.loop is None:
                # a closure over what is in scope *now*
                f = self.fresh("f")
                binds.append(f"{f} (fn* [] {self.expr(min(d - 1, 1), cur.child(loop=None, arg=False))})")
                cur = cur.child(fns=[f])
                self.features.add("closure")
                continue
            name = self.pick(cur.vals) if (cur.vals and r < 0.45) else self.fresh("x")      # shadowing
            if name in ("g0", "g1"):
                name = self.fresh("x")
            if rnd.random() < 0.5 and (cur.vals or True):
                init = self.leaf(cur) if rnd.random() < 0.8 else self.pick(["p0", "p1", "p2"])     # bare name / literal
                self.features.add("alias-init")
            else:
                init = self.expr(d - 1, cur.child(loop="keep"))
            binds.append(f"{name} {init}")
            cur = cur.child([name] if name not in cur.vals else [])
        body = []
        if rnd.random() < 0.3:
            body.append(self.log(cur))
        body.append(self.expr(d - 1, cur, tail))
        return f"(let* [{' '.join(binds)}] {' '.join(body)})"

    def snapshot(self, d: int, sc: Scope, tail: bool) -> str:
        """a local takes the value of a name by bare reference, the name is re-bound, the local is read afterwards
        (directly and through a closure made before the re-binding): a let* binding is a value, not an alias"""
        rnd = self.rnd
        self.features.add("snapshot-then-rebind")
        s_, f = self.fresh("s"), self.fresh("f")
        g = self.pick(["g0", "g1"])
        inner = sc.child([s_], fns=[f] if sc.loop is None else [])
        new = self.expr(min(d - 1, 1), sc)
        reads = [s_, g] + ([f"({f})"] if sc.loop is None else [])
        rnd.shuffle(reads)
        binds = f"{s_} {g}" + (f" {f} (fn* [] {s_})" if sc.loop is None else "")
        return f"(let* [{binds}] (def {g} {new}) [{' '.join(reads)} {self.expr(d - 1, inner.as_arg())}])"

    def try_(self, d: int, sc: Scope, tail: bool) -> str:
        rnd = self.rnd
        self.features.add("try")
        inner = self.expr(d - 1, sc, tail and rnd.random() < 0.7)
        if rnd.random() < 0.4:
            inner = f"(if {self.cond(sc)} (throw (python/ValueError \"v\")) {inner})"
            self.features.add("throw")
        e = self.fresh("e")
        parts = [inner]
        if rnd.random() < 0.7:
            parts.append(f"(catch python/ValueError {e} {self.expr(d - 1, sc)})")
        if rnd.random() < 0.7:
            parts.append(f"(finally {self.log(sc)})")
            self.features.add("finally")
        return "(try " + " ".join(parts) + ")"

    def loop(self, d: int, sc: Scope) -> str:
        rnd = self.rnd
        self.features.add("loop")
        i, acc = self.fresh("i"), self.fresh("acc")
        k = rnd.randint(1, 3)
        inner = sc.child([i, acc], loop=(i, acc))
        init = self.pick(["[]", "0", self.leaf(sc)])
        return f"(loop* [{i} 0 {acc} {init}] (if (< {i} {k}) {self.loop_body(d - 1, inner)} {self.expr(min(d - 1, 1), inner.child(loop=None))}))"

    def loop_body(self, d: int, sc: Scope) -> str:
        """always ends in a recur to sc.loop, possibly under let* / try / if / do wrappers"""
        rnd = self.rnd
        i, acc = sc.loop
        r = rnd.random()
        if d <= 0 or r > 0.85:
            new = self.pick([f"(conj {acc} {self.leaf(sc)})", acc, self.leaf(sc), f"[{acc} {self.leaf(sc)}]"])
            return f"(recur (inc {i}) {new})"
        if r < 0.15:
            # snapshot of a loop local, read in the finally of a try that recurs
            name = self.fresh("j")
            self.features.add("loop-snapshot-read-in-finally")
            src_ = self.pick([i, acc])
            return f"(let* [{name} {src_}] (try {self.loop_body(d - 1, sc.child([name]))} (finally (t [:{self.fresh('k')} {name}] nil))))"
        if r < 0.6:
            name = self.fresh("j")
            init = self.pick([i, acc, self.leaf(sc)])           # snapshot of a loop local by bare name
            self.features.add("loop-snapshot")
            return f"(let* [{name} {init}] {self.loop_body(d - 1, sc.child([name]))})"
        if r < 0.75:
            self.features.add("recur-in-try")
            others = [v for v in sc.vals if v not in (i, acc)]
            if self.rnd.random() < 0.25 or not others:
                # the finally clause reads a loop local that the recur inside the try has already rebound
                # (recorded known finding C01-finally-sees-rebound-loop-local; tagged so it cannot hide anything else)
                self.features.add("finally-reads-rebound-loop-local")
                what = self.pick([i, acc])
            else:
                what = self.pick(others)
            return f"(try {self.loop_body(d - 1, sc)} (finally (t [:{self.fresh('k')} {what}] nil)))"
        if r < 0.8:
            return f"(do {self.log(sc)} {self.loop_body(d - 1, sc)})"
        return f"(if {self.cond(sc)} {self.loop_body(d - 1, sc)} {self.loop_body(d - 1, sc)})"

    def redef(self, d: int, sc: Scope, tail: bool) -> str:
        """(def g <expr>) in statement position, then more code that reads g and any snapshot taken earlier"""
        g = self.pick(["g0", "g1"])
        self.features.add("redef")
        if self.rnd.random() < 0.4:
            # the same Var def'd in this function and again in a function nested in it (run last): reads must see the nested def's value
            self.features.add("nested-redef")
            return (f"(do (def {g} {self.expr(min(d - 1, 1), sc)}) ((fn* [] (def {g} {self.expr(min(d - 1, 1), sc.child(loop=None, arg=False))}) nil)) "
                    f"[{g} {self.expr(d - 1, sc.as_arg())}])")
        return f"(do (def {g} {self.expr(d - 1, sc)}) {self.expr(d - 1, sc, tail)})"


def generate(seed: int, count: int, depth: int = 3, max_len: int = 420):
    """[(name, source of (fn* [p0 p1 p2] ...), features)]"""
    rnd = random.Random(seed * 7919 + 17)
    out, seen = [], set()
    tries = 0
    while len(out) < count and tries < count * 50:
        tries += 1
        g = Gen(rnd)
        body = g.expr(depth, Scope(["g0", "g1"], []))
        if len(body) > max_len or len(body) < 25 or body in seen or not (g.features & {"alias-init", "loop", "try", "closure", "redef", "snapshot-then-rebind"}):
            continue
        seen.add(body)
        out.append((f"gen{len(out):03d}", f"(fn* [p0 p1 p2] {body})", sorted(g.features)))
    # stratify: every production aimed at a semantic rule is represented at least `floor` times, whatever the seed
    must = ["snapshot-then-rebind", "loop-snapshot-read-in-finally", "nested-redef", "closure-call", "recur-in-try", "redef", "throw"]
    floor = max(3, count // 16)
    tries = 0
    while tries < 20000:
        have = {m: sum(1 for _, _, f in out if m in f) for m in must}
        lacking = [m for m in must if have[m] < floor]
        if not lacking:
            break
        tries += 1
        g = Gen(rnd)
        body = g.expr(depth, Scope(["g0", "g1"], []))
        if len(body) > max_len or len(body) < 25 or body in seen or not (g.features & set(lacking)):
            continue
        if "finally-reads-rebound-loop-local" in g.features:
            continue            # the recorded finding's zone adds nothing to the floor
        seen.add(body)
        out.append((f"gen{len(out):03d}", f"(fn* [p0 p1 p2] {body})", sorted(g.features)))
    return out


RESET_SRC = "(do (def g0 0) (def g1 1) (fn* [] (def g0 0) (def g1 1) nil))"
