"""C04 — persistent collections are immutable values that behave like their model (Engine A exploration)."""
from __future__ import annotations

from ..chx.driver import Spec
from ..chx.flow import run_specs
from ..chx.lisp import harness

LEVEL = "exploration"

MODULE = r'''
import collections
F = {n: cfn(n) for n in ("conj", "assoc", "dissoc", "disj", "pop", "peek", "into", "empty", "with-meta", "meta", "update", "merge", "seq", "nth",
                         "get", "contains?", "count", "transient", "persistent!", "conj!", "assoc!", "dissoc!", "disj!", "pop!", "=", "hash", "vec")}
class K:
    """key with a deliberately colliding hash"""
    def __init__(self, i): self.i = i
    def __hash__(self): return 7
    def __eq__(self, o): return isinstance(o, K) and o.i == self.i
    def __repr__(self): return f"K{self.i}"
KEYS = [0, K(0), K(1), None, kw.keyword("a")]   # nil is a legal key / member
VALS = [0, None, False]                            # nil and false are legal values (and are not "absent")
META = lmap.map({kw.keyword("m"): 1})
def elems(x):
    return seq_list(x)
def S(x, y):
    """strict value comparison: 0 is not false, nil is nothing but nil"""
    return type(x) is type(y) and x == y
def V(b):
    """operand value, looked up only by the operations that use it (an unused operand costs no path)"""
    return VALS[b % len(VALS)]
def KEY(a):
    return KEYS[a % len(KEYS)]
def SL(xs, ys):
    return len(xs) == len(ys) and all(S(x, y) for x, y in zip(xs, ys))
class Tracker:
    """every value ever produced, with the model it must (still) equal at the end"""
    def __init__(self, kind, seed):
        self.kind = kind
        self.vals = []
        base = list(range(seed))
        if kind == "vector":
            self.add(vec.vector(base), list(base), None)
        elif kind == "list":
            self.add(llist.list(base), list(base), None)
        elif kind == "queue":
            self.add(lqueue.queue(base), list(base), None)
        elif kind == "set":
            self.add(lset.set(base), set(base), None)
        else:
            if seed == 4:   # small, but 0 / 32 / 1024 share hash bits, so the trie already has interior nodes
                base = [0, 32, 1024, 5]
            self.add(lmap.map({k: k for k in base}), {k: k for k in base}, None)
    def add(self, v, model, meta):
        self.vals.append((v, model, meta))
        return True
    def derived(self, v, model):
        """result of an ordinary operation: the property does not prescribe its metadata"""
        return self.add(v, model, "any")
    def check_all(self):
        for v, model, meta in self.vals:
            if not self.matches(v, model):
                return False
            if meta != "any":   # only seeds and direct results of with-meta have a prescribed metadata
                m = F["meta"](v)
                if (m is None) != (meta is None) or (m is not None and not F["="](m, meta)):
                    return False
        return True
    def matches(self, v, model):
        if self.kind in ("vector", "list", "queue"):
            return SL(elems(v), list(model)) and F["count"](v) == len(model)
        if self.kind == "set":
            got = elems(v)
            return len(got) == len(model) and all(g in model for g in got) and F["count"](v) == len(model)
        got = {k: val for k, val in (v.items() if v is not None else [])}
        return len(got) == len(model) and all(k in model and S(got[k], model[k]) for k in got) and F["count"](v) == len(model)
    def step(self, op, src, a, b):
        v, model, meta = self.vals[src % len(self.vals)]
        kind = self.kind
        if op == 0:      # conj
            if kind == "map":
                return self.derived(F["conj"](v, vec.vector([KEY(a), V(b)])), {**model, KEY(a): V(b)})
            if kind == "set":
                return self.derived(F["conj"](v, KEY(a)), set(model) | {KEY(a)})
            if kind == "list":
                return self.derived(F["conj"](v, V(b)), [V(b)] + list(model))
            return self.derived(F["conj"](v, V(b)), list(model) + [V(b)])
        if op == 1:      # assoc / disj
            if kind == "map":
                return self.derived(F["assoc"](v, KEY(a), V(b)), {**model, KEY(a): V(b)})
            if kind == "vector":
                i = a % (len(model) + 1)
                m2 = list(model); (m2.append(V(b)) if i == len(model) else m2.__setitem__(i, V(b)))
                return self.derived(F["assoc"](v, i, V(b)), m2)
            if kind == "set":
                return self.derived(F["disj"](v, KEY(a)), set(x for x in model if not (x == KEY(a))))
            return True
        if op == 2:      # dissoc / pop
            if kind == "map":
                return self.derived(F["dissoc"](v, KEY(a)), {k: x for k, x in model.items() if not (k == KEY(a))})
            if kind in ("vector", "list", "queue") and model:
                m2 = list(model)[:-1] if kind == "vector" else list(model)[1:]
                return self.derived(F["pop"](v), m2)
            return True
        if op == 3:      # with-meta: equal value, exactly the given metadata, original untouched
            w = F["with-meta"](v, META)
            if not (F["="](w, v) and F["hash"](w) == F["hash"](v)):
                return False
            return self.add(w, model, META)
        if op == 4:      # into / merge / empty
            if kind == "map":
                return self.derived(F["merge"](v, lmap.map({KEY(a): V(b)})), {**model, KEY(a): V(b)})
            if kind == "set":
                return self.derived(F["into"](v, vec.vector([KEY(a)])), set(model) | {KEY(a)})
            if kind == "list":
                return self.derived(F["into"](v, vec.vector([V(b), V(b + 1)])), [V(b + 1), V(b)] + list(model))
            return self.derived(F["into"](v, vec.vector([V(b), V(b + 1)])), list(model) + [V(b), V(b + 1)])
        if op == 5:      # transient ... persistent! (vector / map / set only): the source must stay as it was
            if kind == "vector":
                t = F["transient"](v); t = F["conj!"](t, V(b)); t = F["assoc!"](t, 0, V(b)) if model else t
                m2 = list(model) + [V(b)]
                if model: m2[0] = V(b)
                return self.derived(F["persistent!"](t), m2)
            if kind == "map":
                t = F["transient"](v); t = F["assoc!"](t, KEY(a), V(b)); t = F["dissoc!"](t, KEYS[(a + 1) % len(KEYS)])
                m2 = {**model, KEY(a): V(b)}
                m2 = {k: x for k, x in m2.items() if not (k == KEYS[(a + 1) % len(KEYS)])}
                return self.derived(F["persistent!"](t), m2)
            if kind == "set":
                t = F["transient"](v); t = F["conj!"](t, KEY(a)); t = F["disj!"](t, KEYS[(a + 1) % len(KEYS)])
                m2 = set(x for x in (set(model) | {KEY(a)}) if not (x == KEYS[(a + 1) % len(KEYS)]))
                return self.derived(F["persistent!"](t), m2)
            return True
        if op == 6:      # lookups
            if kind == "map":
                want = [mv for mk, mv in model.items() if mk == KEY(a)]
                return S(F["get"](v, KEY(a), "nf"), (want[0] if want else "nf")) and F["contains?"](v, KEY(a)) is bool(want)
            if kind == "set":
                return F["contains?"](v, KEY(a)) is any(x == KEY(a) for x in model)
            if kind == "vector":
                i = a % (len(model) + 1)
                return S(F["nth"](v, i, "nf"), (model[i] if i < len(model) else "nf")) and S(F["peek"](v), (model[-1] if model else None))
            return S(F["peek"](v), (model[0] if model else None))
        if op == 8:      # variadic forms: several keys / elements in one call (every order of present and absent keys)
            k1, k2 = KEY(a), KEY(a + 1 + b)
            if kind == "set":
                m2 = set(x for x in model if not (x == k1 or x == k2))
                t = F["disj!"](F["transient"](v), k1, k2)
                if not self.matches(F["persistent!"](t), m2):
                    return False
                return self.derived(F["disj"](v, k1, k2), m2)
            if kind == "map":
                m2 = {k: x for k, x in model.items() if not (k == k1 or k == k2)}
                t = F["dissoc!"](F["transient"](v), k1, k2)
                if not self.matches(F["persistent!"](t), m2):
                    return False
                self.derived(F["assoc"](v, k1, V(b), k2, V(b + 1)), {**model, k1: V(b), k2: V(b + 1)})
                return self.derived(F["dissoc"](v, k1, k2), m2)
            if kind == "list":
                return self.derived(F["conj"](v, V(b), V(b + 1)), [V(b + 1), V(b)] + list(model))
            return self.derived(F["conj"](v, V(b), V(b + 1)), list(model) + [V(b), V(b + 1)])
        if op == 7:      # empty
            e = F["empty"](v)
            return self.derived(e, type(model)() if not isinstance(model, list) else [])
        return True
def DIAG(**k):
    return k
'''


def spec(kind, seed, nops, timeout, first_op=None, nkeys=5, nvals=3):
    args = ", ".join(f"o{j}: int, s{j}: int, a{j}: int, b{j}: int" for j in range(nops))
    pre = [x for j in range(nops) for x in (f"0 <= o{j} < 9", f"0 <= s{j} <= {j}", f"0 <= a{j} < {nkeys}", f"0 <= b{j} < {nvals}")]
    if first_op is not None:
        pre[0] = f"o0 == {first_op}"
    ops = ", ".join(f"(o{j}, s{j}, a{j}, b{j})" for j in range(nops))
    body = f'''    t = Tracker({kind!r}, {seed})
    for (o, s, a, b) in [{ops}]:
        if not t.step(o, s, a, b):
            return False
    return t.check_all()'''
    name = f"{kind}/seed={seed}/history-len={nops}" + (f"/first-op={first_op}" if first_op is not None else "")
    keys = ["0", "K0 and K1 with colliding hashes", "K1", "nil", "a keyword"][:nkeys]
    keys.remove("K1")
    return Spec(name, harness(args, body, pre=pre, module_code=MODULE, warm=[]), timeout=timeout,
                bound=f"{nops} operations, any earlier value as source, keys {{{', '.join(keys)}}}, values {{{', '.join(['0', 'nil', 'false'][:nvals])}}}, seed size {seed}",
                meta={"kind": kind})


def run(rep, tier, seed):
    quick = tier == "quick"
    for f, qs in (("vector.py", ["PersistentVector.cons", "PersistentVector.assoc", "PersistentVector.pop", "TransientVector.cons_transient"]),
                  ("map.py", ["PersistentMap.assoc", "PersistentMap.dissoc", "PersistentMap.cons", "TransientMap.assoc_transient"]),
                  ("set.py", ["PersistentSet.cons", "PersistentSet.disj", "TransientSet.cons_transient"]),
                  ("list.py", ["PersistentList.cons", "PersistentList.pop"]), ("queue.py", ["PersistentQueue.cons", "PersistentQueue.pop"])):
        rep.encoded("src/basilisp/lang/" + f, qs, "executed under CrossHair (pyrsistent / immutables cores run concretely)")
    rep.encoded_lisp("src/basilisp/core.lpy", ["conj", "assoc", "dissoc", "disj", "pop", "peek", "into", "empty", "with-meta", "merge", "transient", "persistent!"], "compiled from source")
    nops = 2
    to = 90 if quick else 180
    specs = []
    for kind in ("vector", "map", "set", "list", "queue"):
        sd = {"vector": 34, "map": 4}.get(kind, 3)
        # length 2 on the reduced domain (4 keys incl. nil, values 0/nil) + every single operation on the full domain
        specs += [spec(kind, sd, 2, to * 2 if kind == "map" else to, first_op=f, nkeys=4, nvals=2) for f in range(9)]
        specs += [spec(kind, s1, 1, to) for s1 in (0, sd)]
        if not quick and kind in ("vector", "map", "set"):
            # thorough: the same obligations with twice the budget, then length 2 on the full domain, a 34-entry map seed,
            # and length 3 (reduced domain) behind four first operations
            specs += [spec(kind, sd, 2, 300, first_op=f) for f in range(9)]
            specs += [spec(kind, sd, 3, 300, first_op=f, nkeys=4, nvals=2) for f in (0, 1, 2, 8)]
            if kind == "map":
                specs += [spec(kind, 34, 1, 300)]
    rep.bounds = {"history length": "2 (quick); 2 on the full domain and 3 on the reduced domain (thorough)", "seeds": "vector: 34 elements (two trie levels); map: keys 0/32/1024/5 (shared hash bits: interior nodes; 34 entries thorough-only); 3 otherwise; empty seeds in the length-1 family and the thorough tier",
                  "keys": "0, two objects with colliding hashes, a keyword, nil", "values": "0, nil, false"}
    rep.outside = ["the C cores of pyrsistent / immutables are executed, not encoded", "longer histories", "update / nth on maps"]
    rep.trusted += ["crosshair-tool 0.0.110 + z3", "tuple / dict / set models in vlib/props/c04.py"]
    rep.extra["explanation"] = "solver-chosen operation codes, source values (branching histories) and operands; every value ever produced is re-checked at the end"
    run_specs(rep, specs, lambda s, c: {"kind": s.meta["kind"]}, lambda s, c: f"{s.name}: {c}")
