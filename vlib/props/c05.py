"""C05 — equality is an equivalence that hashing and lookup respect (Engine A)."""
from __future__ import annotations

from ..chx.driver import Spec
from ..chx.flow import run_specs
from ..chx.lisp import harness

LEVEL = "other"

MODULE = r'''
EQ = cfn("=")
GET = cfn("get")
CONTAINS = cfn("contains?")
HASH = cfn("hash")
REPS = ["vector", "list", "cons", "lazy", "queue"]
MK = {
    "vector": lambda xs: vec.vector(xs),
    "list": lambda xs: llist.list(xs),
    "cons": lambda xs: cfn("seq")(vec.vector(xs)) if xs else llist.EMPTY,
    "lazy": lambda xs: cfn("map")(cfn("identity"), vec.vector(xs)),
    "queue": lambda xs: lqueue.queue(xs),
}
def canon(x):
    if x is None:
        return ("nil",)
    if isinstance(x, bool):
        return ("b", bool(x))
    if isinstance(x, int):
        return ("n", int(x))
    if isinstance(x, (list, tuple)):
        return ("c", [canon(e) for e in x])
    return ("c", [canon(e) for e in seq_list(x)])
def small(xs):
    """hashing realises integers: keep the element universe finite (nil, booleans, 0..2)"""
    return all(e is None or isinstance(e, bool) or 0 <= e <= 2 for e in xs)
def mk(rep_index, xs):
    return MK[REPS[rep_index]](list(xs))
def DIAG(**k):
    out = dict(k)
    try:
        ra, rb = k.get("ra", globals().get("RA", 0)), k.get("rb", globals().get("RB", 0))
        k = dict(k, ra=ra, rb=rb)
        a = mk(ra, k["xs"]); b = mk(rb, k.get("ys", k["xs"]))
        out.update(a=repr(a), b=repr(b), eq_ab=EQ(a, b), eq_ba=EQ(b, a), hash_a=hash(a), hash_b=hash(b),
                   ra=REPS[k["ra"]], rb=REPS[k["rb"]])
    except Exception as e:
        out["diag_error"] = repr(e)
    return out
'''

NREP = 5
ELT = "List[Union[None, bool, int]]"


def specs(maxlen, timeout):
    out = []
    reps = ["vector", "list", "cons", "lazy", "queue"]
    for ra in range(NREP):
        for rb in range(ra, NREP):
            tag = f"{reps[ra]}~{reps[rb]}"
            # 1. same elements, different representation: equal both ways, same hash, interchangeable as keys
            body = f'''    ra, rb = {ra}, {rb}
    a, b = mk(ra, xs), mk(rb, xs)
    if not (EQ(a, b) is True and EQ(b, a) is True):
        return False
    if hash(a) != hash(b) or HASH(a) != HASH(b):
        return False
    m = lmap.map({{a: 1}})
    s = lset.set([a])
    return GET(m, b) == 1 and CONTAINS(s, b) is True'''
            out.append(Spec(f"same-elements/eq+hash+lookup/{tag}",
                            harness(f"xs: {ELT}", body, pre=[f"len(xs) <= {maxlen}", "small(xs)"],
                                    module_code=MODULE + f"\nRA, RB = {ra}, {rb}\n", warm=[([1, None],)]),
                            timeout=timeout, bound=f"len <= {maxlen}, elements nil/bool/int", meta={"kind": "same-elements", "pair": tag}))
            # 2. symmetry, agreement with the element-wise reference (a boolean never equals a number), eq => same hash
            body = f'''    ra, rb = {ra}, {rb}
    a, b = mk(ra, xs), mk(rb, ys)
    want = canon(list(xs)) == canon(list(ys))
    return EQ(a, b) is want and EQ(b, a) is want'''
            out.append(Spec(f"elementwise/eq-iff-elements-equal/{tag}",
                            harness(f"xs: {ELT}, ys: {ELT}", body, pre=[f"len(xs) <= {maxlen}", f"len(ys) <= {max(1, maxlen - 1)}", "small(xs)", "small(ys)"],
                                    module_code=MODULE + f"\nRA, RB = {ra}, {rb}\n", warm=[([1], [1]), ([True], [1])]),
                            timeout=timeout, bound=f"two sequences of len <= {maxlen}", meta={"kind": "elementwise", "pair": tag}))
    for (ra, rb, rc) in ((0, 1, 3), (4, 2, 0), (1, 3, 4)):
        body = f'''    a, b, c = mk({ra}, xs), mk({rb}, ys), mk({rc}, zs)
    if EQ(a, b) is True and EQ(b, c) is True:
        return EQ(a, c) is True
    return True'''
        out.append(Spec(f"transitive/{reps[ra]}~{reps[rb]}~{reps[rc]}", harness(f"xs: {ELT}, ys: {ELT}, zs: {ELT}", body,
                                              pre=["len(xs) <= 1", "len(ys) <= 1", "len(zs) <= 1", "small(xs)", "small(ys)", "small(zs)"],
                                              module_code=MODULE + f"\nRA, RB = {ra}, {rb}\n", warm=[([1], [1], [1])]),
                        timeout=timeout, bound="three sequences of len <= 1", meta={"kind": "transitive"}))
    body = '''    e = EQ(x, y)
    if (x is None) != (y is None):
        return e is False
    if isinstance(x, bool) != isinstance(y, bool):
        return e is False
    return e is (x == y) and EQ(x, x) is True and EQ(y, x) is e'''
    out.append(Spec("scalars", harness("x: Union[None, bool, int], y: Union[None, bool, int]", body, module_code=MODULE, warm=[(1, True)]),
                    timeout=timeout, bound="nil/bool/int scalars", meta={"kind": "scalar"}))
    T = "Union[None, bool, int]"
    MS = MODULE + '''
def conflated(p, q):
    """a boolean and a number that Python's == identifies (True == 1, False == 0)"""
    return isinstance(p, bool) != isinstance(q, bool) and p is not None and q is not None and p == q
'''
    mbody = '''    m1 = lmap.map({kw.keyword("a"): x, kw.keyword("b"): vec.vector([y])})
    m2 = lmap.map({kw.keyword("a"): x2, kw.keyword("b"): llist.list([y2])})
    want = canon(x) == canon(x2) and canon(y) == canon(y2)
    if EQ(m1, m2) is not want or EQ(m2, m1) is not want:
        return False
    if want and hash(m1) != hash(m2):
        return False
    s1, s2 = lset.set([x, 5]), lset.set([x2, 5])
    wants = canon(x) == canon(x2)
    if EQ(s1, s2) is not wants or EQ(s2, s1) is not wants:
        return False
    k1, k2 = lmap.map({x: 1}), lmap.map({x2: 1})
    return EQ(k1, k2) is wants and (not wants or hash(k1) == hash(k2))'''
    out.append(Spec("maps-and-sets/entries/no-bool-number-conflation",
                    harness(f"x: {T}, y: {T}, x2: {T}, y2: {T}", mbody, pre=["not conflated(x, x2)", "not conflated(y, y2)", "small([x, y, x2, y2])"],
                            module_code=MS, warm=[(1, 2, 1, 2)]),
                    timeout=timeout, bound="two-entry maps / two-element sets / one-key maps, nil/bool/int leaves, excluding True~1 False~0 pairs",
                    meta={"kind": "map-set", "shape": "general"}))
    out.append(Spec("maps-and-sets/entries/bool-vs-number",
                    harness(f"x: {T}, y: {T}, x2: {T}, y2: {T}", mbody, pre=["conflated(x, x2) or conflated(y, y2)", "small([x, y, x2, y2])"],
                            module_code=MS, warm=[(1, 2, True, 2)]),
                    timeout=timeout, bound="as above, only inputs where a boolean meets the number Python's == identifies with it",
                    meta={"kind": "map-set", "shape": "bool-vs-number"}))
    return out


def run(rep, tier, seed):
    quick = tier == "quick"
    rep.encoded("src/basilisp/lang/interfaces.py", ["seq_equals", "ISeq.__eq__", "ISeq.__hash__"], "executed on CrossHair proxies")
    rep.encoded("src/basilisp/lang/vector.py", ["PersistentVector.__eq__", "PersistentVector.__hash__"], "executed on proxies")
    rep.encoded("src/basilisp/lang/list.py", ["PersistentList.__hash__"], "executed on proxies")
    rep.encoded("src/basilisp/lang/queue.py", ["PersistentQueue.__eq__", "PersistentQueue.__hash__"], "executed on proxies")
    rep.encoded("src/basilisp/lang/map.py", ["PersistentMap.__eq__", "PersistentMap.__hash__"], "executed on proxies")
    rep.encoded("src/basilisp/lang/runtime.py", ["equals"], "executed on proxies")
    ss = specs(2 if quick else 3, 60 if quick else 400)
    rep.bounds = {"sequence length": "<= 2 (quick) / 3 (thorough)", "elements": "nil | true | false | 0 | 1 | 2 (hashing realises integers, so the universe is kept finite)", "representations": "vector, list, cons seq, lazy seq, queue"}
    rep.outside = ["floats/ratios/decimals/records (C-level hashing realises them)", "nesting deeper than 2"]
    rep.assumptions += ["hash functions of pyrsistent / immutables / tuple run concretely (C)"]
    rep.trusted += ["crosshair-tool 0.0.110 + z3"]
    rep.extra["explanation"] = "CrossHair on the real collection classes; the pair/triple of representations is a solver choice"

    def matcher(spec, cex):
        return {"kind": spec.meta["kind"], "shape": spec.meta.get("shape", "")}

    run_specs(rep, ss, matcher, lambda s, c: f"{s.name}: {c}")
