"""C05 — equality is an equivalence that hashing and lookup respect (Engine A)."""
from __future__ import annotations

from ..chx.driver import Spec
from ..chx.flow import run_specs
from ..chx.lisp import harness

LEVEL = "other"

MODULE = r'''
EQ = cfn("=")
GET = cfn("get")
CONTAINS = cfn("contains?")
HASH = cfn("hash")
REPS = ["vector", "list", "cons", "lazy", "queue"]
MK = {
    "vector": lambda xs: vec.vector(xs),
    "list": lambda xs: llist.list(xs),
    "cons": lambda xs: cfn("seq")(vec.vector(xs)) if xs else llist.EMPTY,
    "lazy": lambda xs: cfn("map")(cfn("identity"), vec.vector(xs)),
    "queue": lambda xs: lqueue.queue(xs),
}
def canon(x):
    if x is None:
        return ("nil",)
    if isinstance(x, bool):
        return ("b", bool(x))
    if isinstance(x, int):
        return ("n", int(x))
    if isinstance(x, (list, tuple)):
        return ("c", [canon(e) for e in x])
    return ("c", [canon(e) for e in seq_list(x)])
def small(xs):
    """hashing realises integers: keep the element universe finite (nil, booleans, 0..2)"""
    return all(e is None or isinstance(e, bool) or 0 <= e <= 2 for e in xs)
def mk(rep_index, xs):
    return MK[REPS[rep_index]](list(xs))
def DIAG(**k):
    out = dict(k)
    try:
        ra, rb = k.get("ra", globals().get("RA", 0)), k.get("rb", globals().get("RB", 0))
        k = dict(k, ra=ra, rb=rb)
        a = mk(ra, k["xs"]); b = mk(rb, k.get("ys", k["xs"]))
        out.update(a=repr(a), b=repr(b), eq_ab=EQ(a, b), eq_ba=EQ(b, a), hash_a=hash(a), hash_b=hash(b),
                   ra=REPS[k["ra"]], rb=REPS[k["rb"]])
    except Exception as e:
        out["diag_error"] = repr(e)
    return out
'''

NREP = 5
ELT = "List[Union[None, bool, int]]"


def specs(maxlen, timeout):
    out = []
    reps = ["vector", "list", "cons", "lazy", "queue"]
    for ra in range(NREP):
        for rb in range(ra, NREP):
            tag = f"{reps[ra]}~{reps[rb]}"
            # 1. same elements, different representation: equal both ways, same hash, interchangeable as keys
            body = f'''    ra, rb = {ra}, {rb}
    a, b = mk(ra, xs), mk(rb, xs)
    if not (EQ(a, b) is True and EQ(b, a) is True):
        return False
    if hash(a) != hash(b) or HASH(a) != HASH(b):
        return False
    m = lmap.map({{a: 1}})
    s = lset.set([a])
    return GET(m, b) == 1 and CONTAINS(s, b) is True'''
            out.append(Spec(f"same-elements/eq+hash+lookup/{tag}",
                            harness(f"xs: {ELT}", body, pre=[f"len(xs) <= {maxlen}", "small(xs)"],
                                    module_code=MODULE + f"\nRA, RB = {ra}, {rb}\n", warm=[([1, None],)]),
                            timeout=timeout, bound=f"len <= {maxlen}, elements nil/bool/int", meta={"kind": "same-elements", "pair": tag}))
            # 2. symmetry, agreement with the element-wise reference (a boolean never equals a number), eq => same hash
            body = f'''    ra, rb = {ra}, {rb}
    a, b = mk(ra, xs), mk(rb, ys)
    want = canon(list(xs)) == canon(list(ys))
    return EQ(a, b) is want and EQ(b, a) is want'''
            out.append(Spec(f"elementwise/eq-iff-elements-equal/{tag}",
                            harness(f"xs: {ELT}, ys: {ELT}", body, pre=[f"len(xs) <= {maxlen}", f"len(ys) <= {max(1, maxlen - 1)}", "small(xs)", "small(ys)"],
                                    module_code=MODULE + f"\nRA, RB = {ra}, {rb}\n", warm=[([1], [1]), ([True], [1])]),
                            timeout=timeout, bound=f"two sequences of len <= {maxlen}", meta={"kind": "elementwise", "pair": tag}))
    for (ra, rb, rc) in ((0, 1, 3), (4, 2, 0), (1, 3, 4)):
        body = f'''    a, b, c = mk({ra}, xs), mk({rb}, ys), mk({rc}, zs)
    if EQ(a, b) is True and EQ(b, c) is True:
        return EQ(a, c) is True
    return True'''
        out.append(Spec(f"transitive/{reps[ra]}~{reps[rb]}~{reps[rc]}", harness(f"xs: {ELT}, ys: {ELT}, zs: {ELT}", body,
                                              pre=["len(xs) <= 1", "len(ys) <= 1", "len(zs) <= 1", "small(xs)", "small(ys)", "small(zs)"],
                                              module_code=MODULE + f"\nRA, RB = {ra}, {rb}\n", warm=[([1], [1], [1])]),
                        timeout=timeout, bound="three sequences of len <= 1", meta={"kind": "transitive"}))
    body = '''    e = EQ(x, y)
    if (x is None) != (y is None):
        return e is False
    if isinstance(x, bool) != isinstance(y, bool):
        return e is False
    return e is (x == y) and EQ(x, x) is True and EQ(y, x) is e'''
    out.append(Spec("scalars", harness("x: Union[None, bool, int], y: Union[None, bool, int]", body, module_code=MODULE, warm=[(1, True)]),
                    timeout=timeout, bound="nil/bool/int scalars", meta={"kind": "scalar"}))
    T = "Union[None, bool, int]"
    MS = MODULE + '''
def conflated(p, q):
    """a boolean and a number that Python's == identifies (True == 1, False == 0)"""
    return isinstance(p, bool) != isinstance(q, bool) and p is not None and q is not None and p == q
'''
    mbody = '''    m1 = lmap.map({kw.keyword("a"): x, kw.keyword("b"): vec.vector([y])})
    m2 = lmap.map({kw.keyword("a"): x2, kw.keyword("b"): llist.list([y2])})
    want = canon(x) == canon(x2) and canon(y) == canon(y2)
    if EQ(m1, m2) is not want or EQ(m2, m1) is not want:
        return False
    if want and hash(m1) != hash(m2):
        return False
    s1, s2 = lset.set([x, 5]), lset.set([x2, 5])
    wants = canon(x) == canon(x2)
    if EQ(s1, s2) is not wants or EQ(s2, s1) is not wants:
        return False
    k1, k2 = lmap.map({x: 1}), lmap.map({x2: 1})
    return EQ(k1, k2) is wants and (not wants or hash(k1) == hash(k2))'''
    out.append(Spec("maps-and-sets/entries/no-bool-number-conflation",
                    harness(f"x: {T}, y: {T}, x2: {T}, y2: {T}", mbody, pre=["not conflated(x, x2)", "not conflated(y, y2)", "small([x, y, x2, y2])"],
                            module_code=MS, warm=[(1, 2, 1, 2)]),
                    timeout=timeout, bound="two-entry maps / two-element sets / one-key maps, nil/bool/int leaves, excluding True~1 False~0 pairs",
                    meta={"kind": "map-set", "shape": "general"}))
    out.append(Spec("maps-and-sets/entries/bool-vs-number",
                    harness(f"x: {T}, y: {T}, x2: {T}, y2: {T}", mbody, pre=["conflated(x, x2) or conflated(y, y2)", "small([x, y, x2, y2])"],
                            module_code=MS, warm=[(1, 2, True, 2)]),
                    timeout=timeout, bound="as above, only inputs where a boolean meets the number Python's == identifies with it",
                    meta={"kind": "map-set", "shape": "bool-vs-number"}))
    return out


UNIVERSE_SCRIPT = r'''
import importlib, fractions, decimal, itertools
import basilisp.main as _m
_m.init()
from basilisp.lang import compiler as cc, reader as rd, runtime as rt, symbol as sym, keyword as kw, vector as vec, list as llist, map as lmap, set as lset, queue as lqueue
ns = rt.Namespace.get_or_create(sym.symbol("verif.c05u")); ns.refer_all(rt.Namespace.get_or_create(rt.CORE_NS_SYM))
sys.modules.setdefault(ns.module.__name__, ns.module)
def ev(src):
    with rt.ns_bindings("verif.c05u"):
        ctx = cc.CompilerContext("<u>"); last = None
        for f in rd.read_str(src, resolver=rt.resolve_alias): last = cc.compile_and_exec_form(f, ctx, ns)
        return last
def cfn(n): return rt.Var.find(sym.symbol(n, ns="basilisp.core")).value
EQ, HASH, GET, CONTAINS = cfn("="), cfn("hash"), cfn("get"), cfn("contains?")
U = [1, 1.0, fractions.Fraction(2, 2), decimal.Decimal(1), True, 0, 0.0, False, None, float("nan"), fractions.Fraction(1, 2), 0.5,
     decimal.Decimal("0.5"), "1", kw.keyword("a"), sym.symbol("a"), vec.vector([1, 2]), llist.list([1, 2]), cfn("first")(lmap.map({1: 2})),
     lqueue.queue([1, 2]), cfn("map")(cfn("identity"), vec.vector([1, 2])), vec.vector([]), llist.list([]), lmap.map({}), lset.set([]),
     lmap.map({kw.keyword("x"): 1, kw.keyword("y"): 2}), ev("(do (defrecord Pt [x y]) (->Pt 1 2))"), lset.set([1, 2]), lset.set([1.0, 2]),
     vec.vector([1.0, 2]), llist.list([vec.vector([1]), llist.list([2])]), vec.vector([llist.list([1]), vec.vector([2])])]
def isnan(v): return isinstance(v, float) and v != v
bad = []
for a, b in itertools.product(U, repeat=2):
    e = EQ(a, b)
    if e is not EQ(b, a): bad.append(("asymmetric", a, b))
    if a is b and not isnan(a) and e is not True: bad.append(("irreflexive", a))
    if isinstance(a, bool) != isinstance(b, bool) and isinstance(a, (bool, int, float)) and isinstance(b, (bool, int, float)) and e is True:
        bad.append(("bool-equals-number", a, b))
    if e is True:
        if hash(a) != hash(b) or HASH(a) != HASH(b): bad.append(("equal-but-different-hash", a, b))
        elif GET(lmap.map({a: "v"}), b) != "v" or CONTAINS(lset.set([a]), b) is not True: bad.append(("equal-but-not-found-as-key", a, b))
for a, b, c in itertools.product(U, repeat=3):
    if EQ(a, b) is True and EQ(b, c) is True and EQ(a, c) is not True: bad.append(("intransitive", a, b, c))
if bad:
    print("REPRODUCED:", len(bad), "violations of the equality/hash laws on the mixed universe, e.g.", [tuple(map(repr, x)) for x in bad[:4]]); sys.exit(1)
print("HOLDS", len(U), "values")
'''


def run(rep, tier, seed):
    import time as _t
    from .. import env as _env
    from ..env import PROVED, REFUTED, INCONCLUSIVE, Result
    if getattr(rep, "only", None) is None or "universe" in rep.only:
        t0 = _t.time()
        path = _env.write_replay(rep.prop, "mixed-universe", UNIVERSE_SCRIPT)
        ok, line = _env.replay_reproduces(path, timeout=300)
        r_ = Result("universe/all-pairs-and-triples (concrete run)", INCONCLUSIVE, engine="concrete run (not solver-decided)", secs=_t.time() - t0,
                    bound="32 values: int/float/ratio/decimal/bool/nil/NaN, strings, idents, vector/list/map entry/queue/lazy seq, empty collections, map/record, sets, nested")
        if ok:
            r_.verdict, r_.replay, r_.detail = REFUTED, path, line[:400]
            rep.classify_refutation(r_, {"kind": "universe"}, line[:200])
        elif "holds" in line:
            r_.verdict, r_.detail = PROVED, "all pairs and triples of the universe, one concrete run"
        else:
            r_.detail = line[:300]
        rep.add(r_)
    quick = tier == "quick"
    rep.encoded("src/basilisp/lang/interfaces.py", ["seq_equals", "ISeq.__eq__", "ISeq.__hash__"], "executed on CrossHair proxies")
    rep.encoded("src/basilisp/lang/vector.py", ["PersistentVector.__eq__", "PersistentVector.__hash__"], "executed on proxies")
    rep.encoded("src/basilisp/lang/list.py", ["PersistentList.__hash__"], "executed on proxies")
    rep.encoded("src/basilisp/lang/queue.py", ["PersistentQueue.__eq__", "PersistentQueue.__hash__"], "executed on proxies")
    rep.encoded("src/basilisp/lang/map.py", ["PersistentMap.__eq__", "PersistentMap.__hash__"], "executed on proxies")
    rep.encoded("src/basilisp/lang/runtime.py", ["equals"], "executed on proxies")
    ss = specs(2 if quick else 3, 60 if quick else 240)
    rep.bounds = {"sequence length": "<= 2 (quick) / 3 (thorough)", "elements": "nil | true | false | 0 | 1 | 2 (hashing realises integers, so the universe is kept finite)", "representations": "vector, list, cons seq, lazy seq, queue"}
    rep.outside = ["floats/ratios/decimals/records (C-level hashing realises them)", "nesting deeper than 2"]
    rep.assumptions += ["hash functions of pyrsistent / immutables / tuple run concretely (C)"]
    rep.trusted += ["crosshair-tool 0.0.110 + z3"]
    rep.extra["explanation"] = "CrossHair on the real collection classes; the pair/triple of representations is a solver choice"

    def matcher(spec, cex):
        return {"kind": spec.meta["kind"], "shape": spec.meta.get("shape", "")}

    run_specs(rep, ss, matcher, lambda s, c: f"{s.name}: {c}")
