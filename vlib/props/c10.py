"""C10 — one name, one binding; reads see the value last given (Engine B munge kernel + Engine A histories)."""
from __future__ import annotations

import ast
import json

import z3

from .. import env
from ..env import INCONCLUSIVE, PROVED, REFUTED, Result
from ..pysym import loader
from ..pysym.flatstr import FlatStr
from ..pysym.interp import Interp
from ..pysym.run import check, run_parallel

LEVEL = "other"
UTIL = "src/basilisp/lang/util.py"

# characters the reader never accepts inside a symbol name (delimiters, whitespace, dispatch) + '/' (namespace separator)
FORBIDDEN = set(map(ord, "()[]{}\"@~^;,`/:#\\")) | set(range(0, 33)) | {0x7F}


def table_chars():
    node = loader.find(UTIL, "_MUNGE_REPLACEMENTS")
    d = ast.literal_eval(node.value)
    return d


def scenario(cap_a, cap_b, must_contain=None, blocked_chars=(), no_underscore_end=False, no_dotdot=False, a_equals=None):
    def run(I: Interp, path):
        mod = I.module(UTIL)
        munge = I.global_lookup(mod, "munge")
        a = FlatStr.fresh("a", cap_a, path)
        b = FlatStr.fresh("b", cap_b, path)
        for s in (a, b):
            path.assume(s.length >= 1)
            path.assume(z3.Not(z3.And(s.chars[0] >= 48, s.chars[0] <= 57)))  # a symbol does not start with a digit
            for i, c in enumerate(s.chars):
                path.assume(z3.Implies(i < s.length, z3.And(*[c != f for f in sorted(FORBIDDEN)])))
                for bc in blocked_chars:
                    path.assume(z3.Implies(i < s.length, c != ord(bc)))
                if no_underscore_end:
                    path.assume(z3.Implies(i == s.length - 1, c != ord("_")))
            if no_dotdot:
                path.assume(z3.Not(s.eq("..")))
        if a_equals is not None:
            path.assume(a.eq(a_equals))
        for s in (a, b):
            path.assume(s.chars[0] != ord("'"))  # a leading quote is the reader's quote prefix
            nice = [z3.Or(z3.And(c >= 97, c <= 122), *[c == ord(t) for t in "_-.+*<>=?!$%&'"]) for c in s.chars]
            path.ghost.setdefault("nice", []).extend(nice)
        if must_contain is not None:
            path.assume(z3.Or(*[z3.And(i < s.length, c == ord(must_contain)) for s in (a, b) for i, c in enumerate(s.chars)]))
        path.assume(z3.Not(a.eq(b)))
        ma = I.call(munge, [a])
        mb = I.call(munge, [b])
        from ..pysym.interp import SBool
        from ..pysym.pyproto import py_eq
        same = py_eq(I, ma, mb)
        return SBool(z3.Not(same.t)) if hasattr(same, "t") else (not same)

    return run


REPLAY = r'''
import basilisp.main as _m, sys
_m.init()
from basilisp.lang import compiler as cc, reader as rd, runtime as rt, symbol as sym
from basilisp.lang.util import munge
A, B = {a!r}, {b!r}
if munge(A) != munge(B) or A == B:
    print("HOLDS (no collision)"); sys.exit(0)
out = {{}}
for mode, opts in (("direct", None), ("indirect", {{"use-var-indirection": True}})):
    nsname = "verif.c10." + mode
    ns = rt.Namespace.get_or_create(sym.symbol(nsname)); ns.refer_all(rt.Namespace.get_or_create(rt.CORE_NS_SYM))
    sys.modules.setdefault(ns.module.__name__, ns.module)
    try:
        with rt.ns_bindings(nsname):
            ctx = cc.CompilerContext("<c10>", opts=opts); last = None
            for f in rd.read_str(f"(def {{A}} 1) (def {{B}} 2) {{A}}"):
                last = cc.compile_and_exec_form(f, ctx, ns)
        out[mode] = last
    except Exception as e:
        out[mode] = "exc:" + type(e).__name__
if any(v == 2 for v in out.values()):
    print("REPRODUCED: (def %s 1) (def %s 2) %s evaluates to %r: two names share the Python binding %r" % (A, B, A, out, munge(A)))
    sys.exit(1)
print("HOLDS", out)
'''


HIST = r"""
import itertools
COUNTER = itertools.count()
class World:
    '''two scratch namespaces A and B compiled with one set of options; a name -> value model'''
    def __init__(self, opts):
        n = next(COUNTER)
        self.opts = opts
        self.A, self.B = f"verif.c10.a{n}", f"verif.c10.b{n}"
        _get_ns(self.A); _get_ns(self.B)
        self.model = {}          # (ns, name) -> value
        self.ev(self.A, "(def x 0) (def y 0) (def ^:dynamic *d* 0) (def ^:redef r 0) (def ^:private hidden 41)")
        for k in ("x", "y", "*d*", "r"):
            self.model[(self.A, k)] = 0
        self.ev(self.B, f"(require (quote [{self.A} :as al :refer [y]]))")
    def ev(self, ns, src):
        return lisp_eval(src, ns, self.opts)
    def step(self, op, v):
        A = self.A
        if op == 0:
            self.ev(A, f"(def x {v})"); self.model[(A, "x")] = v
        elif op == 1:
            self.ev(A, f"(def y {v})"); self.model[(A, "y")] = v
        elif op == 2:
            self.ev(A, f"(def ^:redef r {v})"); self.model[(A, "r")] = v
        elif op == 3:   # root mutation of a ^:redef Var is visible everywhere
            self.ev(self.B, f"(alter-var-root (var al/r) (constantly {v}))"); self.model[(A, "r")] = v
        elif op == 4:   # root mutation of a ^:dynamic Var
            self.ev(A, f"(alter-var-root (var *d*) (constantly {v}))"); self.model[(A, "*d*")] = v
        elif op == 5:   # a function defined *before* the redefinition must see the new value of a redef/dynamic Var
            self.ev(A, "(def reader-of-r (fn [] r)) (def reader-of-d (fn [] *d*))")
            self.ev(A, f"(def ^:redef r {v}) (alter-var-root (var *d*) (constantly {v}))")
            self.model[(A, "r")] = v; self.model[(A, "*d*")] = v
            got = [self.ev(A, "(reader-of-r)"), self.ev(A, "(reader-of-d)")]
            if got != [v, v]:
                return ("stale-read-through-closure", got, v)
        elif op == 6:   # def evaluated inside a function body, when the function is called
            self.ev(A, f"(def set-x! (fn [] (def x {v}) nil))")
            self.ev(A, "(set-x!)"); self.model[(A, "x")] = v
        elif op == 7:   # the same name def'd in a function and then in a function nested inside it; the nested def runs last
            self.ev(A, f"(def install! (fn [] (def y {v + 100}) (fn [] (def y {v}) nil)))")
            self.ev(A, "((install!))"); self.model[(A, "y")] = v
        elif op == 9:   # as 7, with an async nested function
            self.ev(A, f"(def install-async! (fn [] (def x {v + 100}) (fn ^:async g [] (def x {v}) nil)))")
            self.ev(A, "((python/getattr (python/__import__ \"asyncio\") \"run\") ((install-async!)))"); self.model[(A, "x")] = v
        elif op == 10:  # a plain Var that compiled code has already read is re-def'd as ^:redef; its root is then altered
            self.ev(A, f"(def ^:redef x {v})")
            self.ev(self.B, f"(alter-var-root (var al/x) (constantly {v + 50}))"); self.model[(A, "x")] = v + 50
        elif op == 11:  # ... or re-def'd as ^:dynamic and then thread-bound
            self.ev(A, f"(def ^:dynamic y {v})"); self.model[(A, "y")] = v
            got = self.ev(A, f"(binding [y {v + 70}] [y (var-get (var y))])")
            if list(got) != [v + 70, v + 70]:
                return ("binding-of-newly-dynamic-var-not-visible", list(got), v + 70)
        elif op == 8:   # def of a closed-over local inside let / do
            self.ev(A, f"(let [z {v}] (do (def x z) nil))"); self.model[(A, "x")] = v
        return self.check()
    def check(self):
        A, B = self.A, self.B
        m = self.model
        reads = {
            "bare-in-A": (A, "[x y r *d*]", [m[(A, "x")], m[(A, "y")], m[(A, "r")], m[(A, "*d*")]]),
            "qualified-from-B": (B, f"[{A}/x {A}/y {A}/r {A}/*d*]", [m[(A, "x")], m[(A, "y")], m[(A, "r")], m[(A, "*d*")]]),
            "alias-from-B": (B, "[al/x al/y al/r al/*d*]", [m[(A, "x")], m[(A, "y")], m[(A, "r")], m[(A, "*d*")]]),
            "referred-in-B": (B, "y", m[(A, "y")]),
            "var-deref": (B, "[(deref (var al/x)) (var-get (var al/r))]", [m[(A, "x")], m[(A, "r")]]),
            "local-shadows-var": (A, "(let [x :local] x)", kw.keyword("local")),
            "binding-visible": (A, "(binding [*d* :bound] *d*)", kw.keyword("bound")),
        }
        for name, (ns, src, want) in reads.items():
            got = self.ev(ns, src)
            got = list(got) if isinstance(got, vec.PersistentVector) else got
            if got != want:
                return (name, got, want)
        try:
            self.ev(B, "al/hidden")
            return ("private-var-reachable",)
        except Exception:
            pass
        return True
def DIAG(**k):
    return k
"""


HIST_RUN = r"""
if __name__ == "__main__":
    import itertools as _it
    modes = {"direct-linking": {"use-var-indirection": False}, "var-indirection": {"use-var-indirection": True}, "no-inlining": {"inline-functions": False}}
    bad = []
    n = 0
    for tag, opts in modes.items():
        for o0, v0, o1, v1 in _it.product(range(12), (1,), range(12), (3, 4)):
            n += 1
            w = World(opts)
            r = w.check()
            for op, v in ((o0, v0), (o1, v1)):
                if r is True:
                    r = w.step(op, v)
            if r is not True:
                bad.append((tag, (o0, v0, o1, v1), r))
    for o0, v0, o1, v1 in _it.product(range(3), (1, 2), range(3), (3, 4)):
        a, b = World(modes["direct-linking"]), World(modes["var-indirection"])
        for op, v in ((o0, v0), (o1, v1)):
            a.step(op, v); b.step(op, v)
        if list(a.ev(a.A, "[x y r]")) != list(b.ev(b.A, "[x y r]")):
            bad.append(("linking-modes-disagree", (o0, v0, o1, v1)))
    if bad:
        print("REPRODUCED:", len(bad), "of", n, "histories read a wrong value, e.g.", [tuple(map(repr, x)) for x in bad[:3]]); sys.exit(1)
    print("HOLDS", n, "histories")
"""


def run(rep, tier, seed):
    only0 = getattr(rep, "only", None)
    if only0 is None or "histories" in only0:
        import time as _t
        from ..chx.lisp import PRELUDE
        rep.encoded("src/basilisp/lang/compiler/analyzer.py", ["_resolve_sym", "__resolve_namespaced_symbol"], "executed when each step's forms are compiled")
        rep.encoded("src/basilisp/lang/compiler/generator.py", ["_var_sym_to_py_ast", "_def_to_py_ast"], "their output is executed")
        t0 = _t.time()
        path = env.write_replay(rep.prop, "histories", PRELUDE + HIST + HIST_RUN)
        ok, line = env.replay_reproduces(path, timeout=900)
        r_ = Result("histories/def-alias-refer-alter-var-root (exhaustive concrete run)", INCONCLUSIVE, engine="concrete enumeration (not solver-decided)",
                    secs=_t.time() - t0,
                    bound="all 288 two-step histories of def x / def y / def ^:redef r / alter-var-root (redef, dynamic) / redefine-behind-a-closure / def inside a called fn / "
                          "def in an fn and again in a (sync / async) fn nested in it / def of a let local / re-def of an already-read plain Var as ^:redef or ^:dynamic, x 3 option sets; "
                          "after each step every spelling is read: bare, fully qualified, alias, refer, var, shadowing local, thread binding; private Var unreachable; "
                          "def-only histories agree between direct linking and var indirection")
        if ok:
            r_.verdict, r_.replay, r_.detail = REFUTED, path, line[:400]
            rep.classify_refutation(r_, {"kind": "history"}, line[:200])
        elif "holds" in line:
            r_.verdict, r_.detail = PROVED, line[:100]
        else:
            r_.detail = line[:400]
        rep.add(r_)
        if only0 is not None:
            return
    rep.encoded(UTIL, ["munge", "_MUNGE_REPLACEMENTS"], "PySym on the real munge AST with position-flattened symbolic strings (table read from source)")
    table = table_chars()
    quick = tier == "quick"
    cap_a = 2 if quick else 3
    jobs = []
    for c, repl in sorted(table.items()):
        if ord(c) in FORBIDDEN:
            continue  # the reader never lets this character into a symbol name
        others = [x for x in table if x != c]
        jobs.append((f"collision-class/translate:{c}", {"class": f"translate:{c}"},
                     dict(cap_a=cap_a, cap_b=cap_a - 1 + len(repl), must_contain=c, blocked_chars=others, no_dotdot=True)))
    jobs.append(("collision-class/reserved-word-suffix", {"class": "reserved-suffix"},
                 dict(cap_a=3, cap_b=4, blocked_chars=list(table), no_dotdot=True)))
    jobs.append(("collision-class/dotdot", {"class": "dotdot"},
                 dict(cap_a=2, cap_b=11, blocked_chars=list(table), a_equals="..")))
    jobs.append(("injective-otherwise", {"class": "other"},
                 dict(cap_a=cap_a + 1, cap_b=cap_a + 2, blocked_chars=list(table), no_underscore_end=True, no_dotdot=True)))
    only = getattr(rep, "only", None)
    if only:
        jobs = [j for j in jobs if only in j[0]]
    results = run_parallel([(lambda kw=kw: check(scenario(**kw), lambda: Interp(), timeout_s=900, max_paths=400)) for _, _, kw in jobs])
    classes = []
    for (name, cls, kw), r in zip(jobs, results):
        rep.solver_s += r["stats"]["solver_s"]
        rep.queries += r["stats"]["queries"]
        res = Result(name, INCONCLUSIVE, engine="B:pysym+z3(flat strings)", secs=r["secs"], stats=r["stats"],
                     bound=f"|a| <= {kw['cap_a']}, |b| <= {kw['cap_b']} over every code point a symbol may contain; constraints {({k: v for k, v in kw.items() if k not in ('cap_a', 'cap_b')})}")
        if r["status"] == "proved":
            res.verdict = PROVED
            res.detail = "unsat: munge is injective on this class of names"
        elif r["status"] == "refuted":
            a, b = r["cex"]["a"], r["cex"]["b"]
            res.witness = {"a": a, "b": b, **cls}
            path = env.write_replay(rep.prop, f"munge_{len(rep.results)}", REPLAY.format(a=a, b=b))
            ok, line = env.replay_reproduces(path)
            res.reproduced = ok
            if ok:
                res.verdict, res.replay, res.detail = REFUTED, path, line[:300]
                rep.classify_refutation(res, {"kind": "munge-collision", **cls}, line[:200])
                classes.append(cls["class"])
            else:
                rep.nonrepro += 1
                res.detail = f"collision {a!r}/{b!r} of munge not reproduced through def: {line[:150]}"
        elif r["status"] == "error":
            raise env.HarnessError(f"PySym crashed on {name}: {r['message']}")
        else:
            res.detail = r["message"][:300]
        rep.add(res)
    rep.extra["collision_classes"] = classes
    rep.bounds = {"names": f"|a| <= {cap_a}(+1), |b| up to |a|-1+len(replacement), every code point a symbol may contain"}
    rep.outside = ["longer names", "collisions that need two different table characters at once (overlapping replacements)",
                   "histories longer than 2 steps; in-ns switching inside one history"]
    rep.assumptions += ["keyword.kwlist and builtins.__dict__ as of this interpreter", "characters the reader rejects in symbols are excluded"]
    rep.trusted += ["z3 5.1.0 (LIA)", "vlib/pysym + flatstr"]
    rep.extra["explanation"] = ("one query per collision class (each table character, the reserved-word suffix, '..') -- each is a recorded finding "
                                "when it reproduces -- and a final query showing munge injective on names outside all classes")
