"""C17 — compare is a consistent total order; sort returns the ordered stable permutation."""
from __future__ import annotations

import json

import z3

from .. import env
from ..env import INCONCLUSIVE, PROVED, REFUTED, Result
from ..pysym import inputs as si
from ..pysym.interp import Interp
from ..pysym.run import check, run_parallel, z3_unescape

LEVEL = "other"

KW = "src/basilisp/lang/keyword.py"
SYM = "src/basilisp/lang/symbol.py"
RT = "src/basilisp/lang/runtime.py"

PROPS = {
    "lt-antisymmetric": ("ab", "def prop(a, b, c, compare):\n    return not (a < b and b < a)\n"),
    "lt-transitive": ("abc", "def prop(a, b, c, compare):\n    return (not (a < b and b < c)) or a < c\n"),
    "lt-total": ("ab", "def prop(a, b, c, compare):\n    return a < b or b < a or a == b\n"),
    "compare-zero-iff-equal": ("ab", "def prop(a, b, c, compare):\n    return (compare(a, b) == 0) == (a == b)\n"),
    "compare-antisymmetric": ("ab", "def prop(a, b, c, compare):\n    return compare(a, b) == 0 - compare(b, a)\n"),
    "compare-transitive": ("abc", "def prop(a, b, c, compare):\n"
                                   "    return (not (compare(a, b) < 0 and compare(b, c) < 0)) or compare(a, c) < 0\n"),
    "orders-by-ns-then-name": ("ab", '''
def ref_lt(a, b):
    # the documented order: no-namespace first, then by namespace, then by name
    if a._ns is None and b._ns is None:
        return a._name < b._name
    if a._ns is None:
        return True
    if b._ns is None:
        return False
    if a._ns == b._ns:
        return a._name < b._name
    return a._ns < b._ns

def prop(a, b, c, compare):
    return (a < b) == ref_lt(a, b) and (compare(a, b) < 0) == ref_lt(a, b)
'''),
    "nil-below-everything": ("a", "def prop(a, b, c, compare):\n"
                                  "    return compare(None, a) == 0 - 1 and compare(a, None) == 1 and compare(None, None) == 0\n"),
}


def named_scenario(relpath, clsname, src, arity):
    def scenario(I: Interp, path):
        mod = I.module(relpath)
        K = I.global_lookup(mod, clsname)
        objs = []
        for nm in "abc":
            if nm in arity:
                ns = si.opt_str(path, f"{nm}_ns")
                name = si.sym_str(path, f"{nm}_name")
                az = z3.Plus(z3.Range("a", "e"))
                path.ghost.setdefault("nice", []).extend(
                    [z3.InRe(name.t, az), z3.Length(name.t) <= 2] + ([z3.InRe(ns.t, az), z3.Length(ns.t) <= 2] if ns is not None else []))
                objs.append(si.obj(path, nm, K, _ns=ns, _name=name, _hash=0, _meta=None))
            else:
                objs.append(None)
        compare = I.global_lookup(I.module(RT), "compare")
        return I.run_harness(src, *objs, compare)

    return scenario


REPLAY = '''
from basilisp.lang import keyword as kw, symbol as sym, runtime as rt
mk = {ctor}
vals = {vals!r}
a, b, c = [mk(v["_name"], ns=v["_ns"]) if v else None for v in vals]
compare = rt.compare
{src}
ok = prop(a, b, c, compare)
if not ok:
    print("REPRODUCED: {pname} false for", a, b, c, "compare(a,b) =", compare(a, b) if b is not None else None,
          "compare(b,a) =", compare(b, a) if b is not None else None)
    sys.exit(1)
print("HOLDS")
'''


SORT_MODULE = r'''
SORT, SORTBY, COMPARE = cfn("sort"), cfn("sort-by"), cfn("compare")
POOL = [kw.keyword("b"), kw.keyword("a"), kw.keyword("b", ns="x"), kw.keyword("a", ns="y"), kw.keyword("c", ns="x"), kw.keyword("a", ns="x")]
def kkey(k):
    return (0, "", k.name) if k.ns is None else (1, k.ns, k.name)
def DIAG(**k):
    return k
'''


def sort_specs(timeout):
    from ..chx.driver import Spec
    from ..chx.lisp import harness
    out = []
    body = '''    got = seq_list(SORT(vec.vector(xs)))
    if got != sorted(xs):
        return False
    # sort-by with a key that creates ties: stable, ordered by the key
    got2 = seq_list(SORTBY(lambda x: x // 2, vec.vector(xs)))
    want2 = sorted(xs, key=lambda x: x // 2)
    # descending comparator given as a boolean predicate and as a 3-way function
    got3 = seq_list(SORT(lambda a, b: a > b, vec.vector(xs)))
    got4 = seq_list(SORT(lambda a, b: COMPARE(b, a), vec.vector(xs)))
    return got2 == want2 and got3 == sorted(xs, reverse=True) and got4 == sorted(xs, reverse=True)'''
    out.append(Spec("sort/ints", harness("xs: List[int]", body, pre=["len(xs) <= 3"], module_code=SORT_MODULE, warm=[([3, 1, 2],)]),
                    timeout=timeout, bound="lists of <= 3 ints (unbounded values)", meta={"kind": "sort"}))
    body = '''    # elements that are equal (and hash alike) yet distinguishable: True / 1, False / 0; the key tells them apart
    key = lambda v: (0 if isinstance(v, bool) else 1, v)
    got = seq_list(SORTBY(key, vec.vector(xs)))
    want = sorted(xs, key=key)
    same = len(got) == len(want) and all(type(g) is type(w) and g == w for g, w in zip(got, want))
    got2 = seq_list(SORTBY(lambda v: str(v), vec.vector(xs)))
    want2 = sorted(xs, key=lambda v: str(v))
    return same and len(got2) == len(want2) and all(type(g) is type(w) and g == w for g, w in zip(got2, want2))'''
    out.append(Spec("sort-by/equal-but-distinguishable-elements", harness("xs: List[Union[bool, int]]", body,
                                                                          pre=["len(xs) <= 3", "all(isinstance(v, bool) or 0 <= v <= 2 for v in xs)"],
                                                                          module_code=SORT_MODULE, warm=[([True, 1, 0],)]),
                    timeout=timeout, bound="lists of <= 3 elements over {true, false, 0, 1, 2}", meta={"kind": "sort"}))
    body = '''    ks = [POOL[i] for i in [i0, i1, i2][:n]]
    got = seq_list(SORT(vec.vector(ks)))
    want = sorted(ks, key=kkey)
    # the result for distinct elements does not depend on the order of the input
    got_rev = seq_list(SORT(vec.vector(list(reversed(ks)))))
    distinct = len(set(ks)) == len(ks)
    return got == want and (not distinct or got_rev == want)'''
    out.append(Spec("sort/keywords", harness("i0: int, i1: int, i2: int, n: int", body,
                                             pre=["0 <= i0 < 6", "0 <= i1 < 6", "0 <= i2 < 6", "0 <= n <= 3"], module_code=SORT_MODULE, warm=[(0, 1, 2, 3)]),
                    timeout=timeout, bound="<= 3 keywords chosen among 6 (every ns/name ordering combination)", meta={"kind": "sort"}))
    body = '''    a, b = vec.vector(xs), vec.vector(ys)
    c = COMPARE(a, b)
    ref = 0
    if len(xs) != len(ys):
        ref = 1 if len(xs) > len(ys) else -1
    else:
        for p, q in zip(xs, ys):
            if p != q:
                ref = 1 if p > q else -1
                break
    return c == ref and COMPARE(b, a) == -ref'''
    out.append(Spec("compare/vectors-of-ints", harness("xs: List[int], ys: List[int]", body, pre=["len(xs) <= 3", "len(ys) <= 3"],
                                                        module_code=SORT_MODULE, warm=[([1, 2], [1, 3])]),
                    timeout=timeout, bound="vectors of <= 3 ints: shorter first, then element-wise", meta={"kind": "compare-vector"}))
    body = '''    c = COMPARE(x, y)
    if x is None or y is None:
        return c == ((x is not None) - (y is not None))
    return c == (x > y) - (x < y) and COMPARE(y, x) == -c'''
    out.append(Spec("compare/numbers-and-nil", harness("x: Optional[int], y: Optional[int]", body, module_code=SORT_MODULE, warm=[(1, None)]),
                    timeout=timeout, bound="ints (unbounded) and nil", meta={"kind": "compare-number"}))
    body = '''    c = COMPARE(s, t)
    return c == (s > t) - (s < t) and COMPARE(t, s) == -c'''
    out.append(Spec("compare/strings", harness("s: str, t: str", body, pre=["len(s) <= 2", "len(t) <= 2"], module_code=SORT_MODULE, warm=[("a", "b")]),
                    timeout=timeout, bound="strings of <= 2 code points", meta={"kind": "compare-string"}))
    return out


def run(rep, tier, seed):
    rep.encoded(RT, ["sort", "sort_by", "_fn_to_comparator"], "executed under CrossHair (sorted() is environment)")
    rep.encoded("src/basilisp/lang/vector.py", ["PersistentVector.__lt__"], "executed under CrossHair")
    rep.encoded(KW, ["Keyword.__lt__", "Keyword.__eq__"], "PySym: AST interpreted over z3 String/Option terms")
    rep.encoded(SYM, ["Symbol.__lt__", "Symbol.__eq__"], "PySym")
    rep.encoded(RT, ["compare", "_compare_nil"], "PySym (singledispatch registry read from the AST)")
    rep.trusted += ["z3 5.1.0 string theory (str.< is code-point lexicographic, as CPython's str.__lt__)",
                    "functools.total_ordering derivations interpreted from the stdlib source",
                    "vlib/pysym (own symbolic interpreter; fails closed on unsupported syntax)"]
    rep.bounds = {"namespaces": "Option String, unbounded length", "names": "String, unbounded length"}
    only = getattr(rep, "only", None)
    jobs = []
    for fam, relpath, clsname, ctor in (("Keyword", KW, "Keyword", "kw.keyword"), ("Symbol", SYM, "Symbol", "sym.symbol")):
        for pname, (arity, src) in PROPS.items():
            name = f"{fam}/{pname}"
            if only and only not in name:
                continue
            jobs.append((fam, ctor, pname, src, name,
                         (lambda rp=relpath, cn=clsname, s_=src, ar=arity:
                          check(named_scenario(rp, cn, s_, ar), lambda: Interp(), timeout_s=120))))
    results = run_parallel([j[-1] for j in jobs])
    for (fam, ctor, pname, src, name, _), r in zip(jobs, results):
        if True:
            rep.solver_s += r["stats"]["solver_s"]
            rep.queries += r["stats"]["queries"]
            res = Result(name, INCONCLUSIVE, bound="ns: Option String, name: String (unbounded)", engine="B:pysym+z3",
                         secs=r["secs"], stats=r["stats"])
            if r["status"] == "proved":
                res.verdict = PROVED
                res.detail = f"unsat on all {r['stats']['paths']} paths"
            elif r["status"] == "refuted":
                vals = []
                for nm in "abc":
                    v = r["cex"].get(nm)
                    if v is None:
                        vals.append(None)
                    else:
                        vals.append({"_ns": None if v["_ns"] is None else z3_unescape(v["_ns"]),
                                     "_name": z3_unescape(v["_name"])})
                res.witness = vals
                body = REPLAY.format(ctor=ctor, vals=vals, src=src, pname=name)
                path = env.write_replay(rep.prop, name, body)
                ok, line = env.replay_reproduces(path)
                res.reproduced = ok
                if ok:
                    res.verdict, res.replay, res.detail = REFUTED, path, line[:300]
                    shape = "cross-namespace" if all(v and v["_ns"] is not None for v in vals[:2]) else "other"
                    rep.classify_refutation(res, {"family": fam, "prop": pname, "shape": shape},
                                            f"{name}: {line[:160]}")
                else:
                    rep.nonrepro += 1
                    res.detail = "non-reproducing model: " + line[:200]
            elif r["status"] == "error":
                raise env.HarnessError(f"PySym crashed on {name}: {r['message']}")
            else:
                res.detail = r["message"][:300]
            rep.add(res)
    from ..chx.flow import run_specs
    if getattr(rep, "only", None) is None or "sort" in rep.only or "compare/" in rep.only:
        run_specs(rep, sort_specs(60 if tier == "quick" else 400), lambda s_, c: {"family": "sort", "prop": s_.name}, lambda s_, c: f"{s_.name}: {c}")
    rep.extra["explanation"] = ("Engine B: the real __lt__/__eq__/compare ASTs are interpreted over unbounded z3 strings; "
                                "each obligation is decided by z3 on every path (unsat = holds for all strings).")
