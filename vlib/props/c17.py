"""C17 — compare is a consistent total order; sort returns the ordered stable permutation."""
from __future__ import annotations

import json

import z3

from .. import env
from ..env import INCONCLUSIVE, PROVED, REFUTED, Result
from ..pysym import inputs as si
from ..pysym.interp import Interp
from ..pysym.run import check, run_parallel, z3_unescape

LEVEL = "other"

KW = "src/basilisp/lang/keyword.py"
SYM = "src/basilisp/lang/symbol.py"
RT = "src/basilisp/lang/runtime.py"

PROPS = {
    "lt-antisymmetric": ("ab", "def prop(a, b, c, compare):\n    return not (a < b and b < a)\n"),
    "lt-transitive": ("abc", "def prop(a, b, c, compare):\n    return (not (a < b and b < c)) or a < c\n"),
    "lt-total": ("ab", "def prop(a, b, c, compare):\n    return a < b or b < a or a == b\n"),
    "compare-zero-iff-equal": ("ab", "def prop(a, b, c, compare):\n    return (compare(a, b) == 0) == (a == b)\n"),
    "compare-antisymmetric": ("ab", "def prop(a, b, c, compare):\n    return compare(a, b) == 0 - compare(b, a)\n"),
    "compare-transitive": ("abc", "def prop(a, b, c, compare):\n"
                                   "    return (not (compare(a, b) < 0 and compare(b, c) < 0)) or compare(a, c) < 0\n"),
    "orders-by-ns-then-name": ("ab", '''
def ref_lt(a, b):
    # the documented order: no-namespace first, then by namespace, then by name
    if a._ns is None and b._ns is None:
        return a._name < b._name
    if a._ns is None:
        return True
    if b._ns is None:
        return False
    if a._ns == b._ns:
        return a._name < b._name
    return a._ns < b._ns

def prop(a, b, c, compare):
    return (a < b) == ref_lt(a, b) and (compare(a, b) < 0) == ref_lt(a, b)
'''),
    "nil-below-everything": ("a", "def prop(a, b, c, compare):\n"
                                  "    return compare(None, a) == 0 - 1 and compare(a, None) == 1 and compare(None, None) == 0\n"),
}


def named_scenario(relpath, clsname, src, arity):
    def scenario(I: Interp, path):
        mod = I.module(relpath)
        K = I.global_lookup(mod, clsname)
        objs = []
        for nm in "abc":
            if nm in arity:
                ns = si.opt_str(path, f"{nm}_ns")
                name = si.sym_str(path, f"{nm}_name")
                az = z3.Plus(z3.Range("a", "e"))
                path.ghost.setdefault("nice", []).extend(
                    [z3.InRe(name.t, az), z3.Length(name.t) <= 2] + ([z3.InRe(ns.t, az), z3.Length(ns.t) <= 2] if ns is not None else []))
                objs.append(si.obj(path, nm, K, _ns=ns, _name=name, _hash=0, _meta=None))
            else:
                objs.append(None)
        compare = I.global_lookup(I.module(RT), "compare")
        return I.run_harness(src, *objs, compare)

    return scenario


REPLAY = '''
from basilisp.lang import keyword as kw, symbol as sym, runtime as rt
mk = {ctor}
vals = {vals!r}
a, b, c = [mk(v["_name"], ns=v["_ns"]) if v else None for v in vals]
compare = rt.compare
{src}
ok = prop(a, b, c, compare)
if not ok:
    print("REPRODUCED: {pname} false for", a, b, c, "compare(a,b) =", compare(a, b) if b is not None else None,
          "compare(b,a) =", compare(b, a) if b is not None else None)
    sys.exit(1)
print("HOLDS")
'''


def run(rep, tier, seed):
    rep.encoded(KW, ["Keyword.__lt__", "Keyword.__eq__"], "PySym: AST interpreted over z3 String/Option terms")
    rep.encoded(SYM, ["Symbol.__lt__", "Symbol.__eq__"], "PySym")
    rep.encoded(RT, ["compare", "_compare_nil"], "PySym (singledispatch registry read from the AST)")
    rep.trusted += ["z3 5.1.0 string theory (str.< is code-point lexicographic, as CPython's str.__lt__)",
                    "functools.total_ordering derivations interpreted from the stdlib source",
                    "vlib/pysym (own symbolic interpreter; fails closed on unsupported syntax)"]
    rep.bounds = {"namespaces": "Option String, unbounded length", "names": "String, unbounded length"}
    only = getattr(rep, "only", None)
    jobs = []
    for fam, relpath, clsname, ctor in (("Keyword", KW, "Keyword", "kw.keyword"), ("Symbol", SYM, "Symbol", "sym.symbol")):
        for pname, (arity, src) in PROPS.items():
            name = f"{fam}/{pname}"
            if only and only not in name:
                continue
            jobs.append((fam, ctor, pname, src, name,
                         (lambda rp=relpath, cn=clsname, s_=src, ar=arity:
                          check(named_scenario(rp, cn, s_, ar), lambda: Interp(), timeout_s=120))))
    results = run_parallel([j[-1] for j in jobs])
    for (fam, ctor, pname, src, name, _), r in zip(jobs, results):
        if True:
            rep.solver_s += r["stats"]["solver_s"]
            rep.queries += r["stats"]["queries"]
            res = Result(name, INCONCLUSIVE, bound="ns: Option String, name: String (unbounded)", engine="B:pysym+z3",
                         secs=r["secs"], stats=r["stats"])
            if r["status"] == "proved":
                res.verdict = PROVED
                res.detail = f"unsat on all {r['stats']['paths']} paths"
            elif r["status"] == "refuted":
                vals = []
                for nm in "abc":
                    v = r["cex"].get(nm)
                    if v is None:
                        vals.append(None)
                    else:
                        vals.append({"_ns": None if v["_ns"] is None else z3_unescape(v["_ns"]),
                                     "_name": z3_unescape(v["_name"])})
                res.witness = vals
                body = REPLAY.format(ctor=ctor, vals=vals, src=src, pname=name)
                path = env.write_replay(rep.prop, name, body)
                ok, line = env.replay_reproduces(path)
                res.reproduced = ok
                if ok:
                    res.verdict, res.replay, res.detail = REFUTED, path, line[:300]
                    shape = "cross-namespace" if all(v and v["_ns"] is not None for v in vals[:2]) else "other"
                    rep.classify_refutation(res, {"family": fam, "prop": pname, "shape": shape},
                                            f"{name}: {line[:160]}")
                else:
                    rep.nonrepro += 1
                    res.detail = "non-reproducing model: " + line[:200]
            elif r["status"] == "error":
                raise env.HarnessError(f"PySym crashed on {name}: {r['message']}")
            else:
                res.detail = r["message"][:300]
            rep.add(res)
    rep.extra["explanation"] = ("Engine B: the real __lt__/__eq__/compare ASTs are interpreted over unbounded z3 strings; "
                                "each obligation is decided by z3 on every path (unsat = holds for all strings).")
