"""C06 — lazy sequences realize each element once, only on demand (single-threaded histories; Engine A)."""
from __future__ import annotations

from ..chx.driver import Spec
from ..chx.flow import run_specs
from ..chx.lisp import harness

LEVEL = "exploration"

MODULE = r'''
CALLS = []
class Boom(Exception):
    pass
def make_producer(throw_at, times):
    """producer for element i; raises Boom the first `times` times index `throw_at` is produced"""
    left = [times]
    def produce(i):
        CALLS.append(i)
        if i == throw_at and left[0] > 0:
            left[0] -= 1
            raise Boom(i)
        return ("elem", i)
    return produce
_ns = _get_ns("verif.c06")
MK = {
    "lazy-seq": lisp_eval("(fn mk [produce i n] (lazy-seq (when (< i n) (cons (produce i) (mk produce (inc i) n)))))", "verif.c06"),
    "map": lisp_eval("(fn [produce i n] (map produce (range i n)))", "verif.c06"),
    "filter-map": lisp_eval("(fn [produce i n] (filter some? (map produce (range i n))))", "verif.c06"),
    "concat": lisp_eval("(fn [produce i n] (concat (map produce (range i (min n 1))) (map produce (range (min n 1) n))))", "verif.c06"),
    "concat-2-2": lisp_eval("(fn [produce i n] (concat (map produce (range i (min n 2))) (map produce (range (min n 2) n))))", "verif.c06"),
    "mapcat": lisp_eval("(fn [produce i n] (mapcat (fn [r] (map produce r)) [(range i (min n 2)) (range (min n 2) n)]))", "verif.c06"),
    "lazy-cat": lisp_eval("(fn [produce i n] (lazy-cat (map produce (range i (min n 2))) (map produce (range (min n 2) n))))", "verif.c06"),
    "iterate": lisp_eval("(fn [produce i n] (take n (map produce (iterate inc i))))", "verif.c06"),
    "py-iterable": lisp_eval("(fn [produce i n] (map produce (seq (python/list (range i n)))))", "verif.c06"),
}
FIRST, REST, NEXT, SEQ, NTH = cfn("first"), cfn("rest"), cfn("next"), cfn("seq"), cfn("nth")
OPSETS = {"seq-api": [0, 1, 2, 3], "python-protocol": [1, 4, 5, 6]}
def opcode(opset, o):
    for k in range(4):
        if o == k:
            return OPSETS[opset][k]
    return 3
def run_history(kind, n, throw_at, ops):
    """ops: list of (op, cell index). cells[k] = (object, offset). Returns False on any mismatch with the model."""
    del CALLS[:]
    produce = make_producer(throw_at, 1)
    s = MK[kind](produce, 0, n)
    cells = [(s, 0)]
    demanded = -1
    for op, ci in ops:
        obj, off = cells[ci % len(cells)]
        if obj is None:
            continue
        try:
            if op == 0:      # first
                demanded = max(demanded, off)
                v = FIRST(obj)
                want = ("elem", off) if off < n else None
                if v != want:
                    return ("first", off, v)
            elif op == 1:    # rest
                demanded = max(demanded, off)
                r = REST(obj)
                cells.append((r, off + 1))
            elif op == 2:    # next
                demanded = max(demanded, off + 1)
                r = NEXT(obj)
                if (r is None) != (off + 1 >= n):
                    return ("next", off, r)
                cells.append((r, off + 1))
            elif op == 4 or op == 5:   # Python iteration protocol: pull k = 1 or 2 elements with iter() / next()
                k = op - 3
                demanded = max(demanded, min(off + k - 1, n))
                it = iter(obj)
                got = []
                for _ in range(k):
                    try:
                        got.append(next(it))
                    except StopIteration:
                        break
                want = [("elem", i) for i in range(off, min(n, off + k))]
                if got != want:
                    return ("py-iter", off, got)
            elif op == 6:    # nth with a default
                demanded = max(demanded, min(off + 1, n))
                v = NTH(obj, 1, "nf")
                want = ("elem", off + 1) if off + 1 < n else "nf"
                if v != want:
                    return ("nth", off, v)
            else:            # seq
                demanded = max(demanded, off)
                r = SEQ(obj)
                if (r is None) != (off >= n):
                    return ("seq", off, r)
        except Boom as e:
            # the producer's exception reaches the consumer; the failed element was demanded
            if not (0 <= throw_at <= demanded + LOOKAHEAD[kind] and throw_at < n):
                return ("unexpected-exception", throw_at, demanded)
        # each producer index at most once (the throwing index may be retried once), nothing beyond what was demanded
        for i in set(CALLS):
            if CALLS.count(i) > (2 if i == throw_at else 1):
                return ("produced-twice", i, list(CALLS))
        if CALLS and max(CALLS) > demanded + LOOKAHEAD[kind]:
            return ("produced-undemanded", max(CALLS), demanded)
    return True
LOOKAHEAD = {"lazy-seq": 0, "map": 0, "filter-map": 0, "concat": 0, "concat-2-2": 0, "mapcat": 0, "lazy-cat": 0, "iterate": 0, "py-iterable": 0}
def DIAG(**k):
    ops = [(opcode(OPSET, k[f"o{j}"]), k[f"c{j}"]) for j in range(8) if f"o{j}" in k]
    return {"history": run_history(KIND, k["n"], k["t"], ops), "operations": ops, "calls": list(CALLS)}
'''


COMPONENT_STARTS = {"concat": (0, 1), "concat-2-2": (0, 2), "mapcat": (0, 2), "lazy-cat": (0, 2)}   # indices that are the first element of a concatenated component


def spec(kind, nops, timeout, throw_at=None, nmax=3, opset="seq-api"):
    """throw_at None: no exceptions; otherwise the producer raises (once) at exactly that index, one obligation per index
    (a spec stops at its first counterexample, so a known failing index must not hide the others)"""
    args = "n: int, t: int, " + ", ".join(f"o{j}: int, c{j}: int" for j in range(nops))
    pre = [f"0 <= n <= {nmax}", (f"t == {throw_at}" if throw_at is not None else "t == -1")] + [x for j in range(nops) for x in (f"0 <= o{j} < 4", f"0 <= c{j} <= {j}")]
    ops = ", ".join(f"(opcode({opset!r}, o{j}), c{j})" for j in range(nops))
    body = f"    return run_history(KIND, n, t, [{ops}]) is True"
    pos = ""
    if throw_at is not None and kind in COMPONENT_STARTS:
        pos = "first-element-of-a-component" if throw_at in COMPONENT_STARTS[kind] else "inner-element"
    return Spec(f"{kind}/{'' if opset == 'seq-api' else opset + '/'}history-len={nops}/" + (f"producer-throws-at-{throw_at}" if throw_at is not None else "no-exceptions"),
                harness(args, body, pre=pre, module_code=MODULE + f"\nKIND = {kind!r}\nOPSET = {opset!r}\n", warm=[]), timeout=timeout,
                bound=f"sequences of <= {nmax} elements, {nops} consumption steps ("
                      + ("first/rest/next/seq" if opset == "seq-api" else "rest / iter()+next() x1 / x2 / nth") + " on any cell obtained so far)"
                      + (f", producer throwing once at index {throw_at}" if throw_at is not None else ""),
                meta={"kind": kind, "throw": throw_at is not None, "throw_position": pos})


def run(rep, tier, seed):
    quick = tier == "quick"
    from .. import env as _env
    rep.extra["native_module"] = _env.build_native()
    rep.encoded("rust/src/basilisp_native/seq.rs", [], "the native LazySeq/Cons/Sequence run concretely (compiled module); not symbolically executed")
    rep.encoded_lisp("src/basilisp/core.lpy", ["lazy-seq", "map", "filter", "concat", "iterate", "take", "range", "seq"], "compiled from source, executed under CrossHair")
    kinds = ["lazy-seq", "map", "filter-map", "concat", "concat-2-2", "mapcat", "lazy-cat", "iterate", "py-iterable"]
    nops = 3
    to = 90 if quick else 200
    specs = []
    for k in kinds:
        nmax = 4 if k in ("concat-2-2", "mapcat", "lazy-cat") else 3
        tk = to * 2 if (quick and k in COMPONENT_STARTS) else to     # concat-family paths are ~1.5x slower
        specs.append(spec(k, nops, tk, None, nmax))
        if k in ("lazy-seq", "map", "filter-map", "concat", "iterate", "py-iterable"):
            specs.append(spec(k, nops, tk, None, nmax, opset="python-protocol"))
        for t in range(nmax):
            specs.append(spec(k, nops, tk, t, nmax))
        if not quick and k in ("lazy-seq", "map", "concat"):
            # thorough: the quick obligations with a doubled budget, plus 4 consumption steps for three producers
            specs.append(spec(k, 4, 600, None, nmax))
            specs.append(spec(k, 4, 600, None, nmax, opset="python-protocol"))
    rep.bounds = {"elements": "<= 3", "consumption steps": "3 (4 for lazy-seq / map / concat in the thorough tier)", "producers": kinds}
    rep.outside = ["multi-threaded consumers, deadlock freedom: NOT APPLICABLE to this technique here (native Rust under parking_lot + GIL; see DESIGN section 5)",
                   "the Rust code itself is executed, not encoded", "count / reduce as consumers"]
    rep.trusted += ["crosshair-tool 0.0.110 + z3", "offset model of a lazy sequence (vlib/props/c06.py)"]
    rep.extra["explanation"] = "solver-chosen consumption programs over branching cells; data is concrete per path"

    def matcher(spec_, cex, line=""):
        kind = "other"
        if spec_.meta["throw"] and cex.get("t", -1) >= 0:
            kind = "sequence-corrupted-after-producer-exception/" + ("concat-family" if spec_.meta["kind"] in COMPONENT_STARTS else spec_.meta["kind"])
        return {"kind": kind, "throw_position": spec_.meta["throw_position"]}

    run_specs(rep, specs, matcher, lambda s, c: f"{s.name}: {c}")
