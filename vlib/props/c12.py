"""C12 — atom updates are atomic under every schedule and always terminate (Engine B: BMC)."""
from __future__ import annotations

import itertools
import json
import os
import time
from typing import Any, Dict, List

import z3

from .. import env
from ..env import INCONCLUSIVE, PROVED, REFUTED, Result
from ..pysym.bmc import IVal, System, Values, grants, shared_lines
from ..pysym.cfg import ClassInfo, Model
from ..pysym.interp import Unsupported
from ..pysym.run import run_parallel

LEVEL = "model_checking"

ATOM, REF = "src/basilisp/lang/atom.py", "src/basilisp/lang/reference.py"
FIELDS = {"_state": "val", "_lock": "lock", "_validator": "const", "_meta": "val"}


def atom_class():
    ref = ClassInfo(REF, "ReferenceBase", [])
    refb = ClassInfo(REF, "RefBase", [ref])
    return ClassInfo(ATOM, "Atom", [refb])


def atom_model(n_watches=1):
    return Model(fields={**FIELDS, "_watches": "watches"}, n_watches=n_watches)


# ------------------------------------------------------------------ sequential specification (the oracle)


def seq_spec(vals: Values, vf, state, op, args):
    """(new state, status(1 ret / 2 raised), result) of one atom operation run alone"""
    V = vals.V

    def valid(v):
        return z3.Or(vf == V.nil, z3.And(z3.Not(vals.throws[1](vf, v)), vals.truthy(vals.app[1](vf, v))))

    if op == "swap":
        f = args[0]
        thr = vals.throws[1](f, state)
        new = vals.app[1](f, state)
        ok = z3.And(z3.Not(thr), valid(new))
        return z3.If(ok, new, state), z3.If(ok, IVal(1), IVal(2)), z3.If(ok, new, V.nil)
    if op == "reset":
        v = args[0]
        ok = valid(v)
        return z3.If(ok, v, state), z3.If(ok, IVal(1), IVal(2)), z3.If(ok, v, V.nil)
    if op == "compare_and_set":
        o, n = args
        ok = valid(n)
        hit = z3.Not(vals.ne(state, o))
        return z3.If(z3.And(ok, hit), n, state), z3.If(ok, IVal(1), IVal(2)), z3.If(ok, vals.b(hit), V.nil)
    if op == "deref":
        return state, IVal(1), state
    raise ValueError(op)


def build(config, K, allow_selfneq=False, n_watches=1):
    """config: list (per thread) of list of op names"""
    vals = Values({}, allow_selfneq=allow_selfneq)
    S = System(vals, dict(FIELDS), watched_field="_state", max_trans=sum(len(t) for t in config) + 1)
    cls, model = atom_class(), atom_model(n_watches)
    opargs = []
    for t, ops in enumerate(config):
        prog = []
        for j, op in enumerate(ops):
            if op == "swap":
                a = [S.const(f"f_{t}_{j}")]
            elif op == "reset":
                a = [S.const(f"v_{t}_{j}")]
            elif op == "compare_and_set":
                a = [S.const(f"o_{t}_{j}"), S.const(f"n_{t}_{j}")]
            else:
                a = []
            opargs.append((t, j, op, a))
            prog.append((op, [("z3", x) for x in a]))
        S.add_thread(cls, model, prog)
    cs = S.unroll(K)
    return vals, S, cs, opargs


def linearizable(vals, S, opargs):
    """exists an order of all operations, respecting each thread's program order, whose sequential
    execution gives the observed final state, statuses and results"""
    final = S.st[S.K]
    vf = S.const("init__validator")
    init = S.const("init__state")
    n = len(opargs)
    alts = []
    for perm in itertools.permutations(range(n)):
        ok = True
        last = {}
        for idx in perm:
            t, j, _, _ = opargs[idx]
            if last.get(t, -1) > j:
                ok = False
                break
            last[t] = j
        if not ok:
            continue
        state = init
        conj = []
        for idx in perm:
            t, j, op, a = opargs[idx]
            state, status, result = seq_spec(vals, vf, state, op, a)
            slot = f"t{t}op{j}"
            conj.append(final[f"status:{slot}"] == status)
            conj.append(z3.Implies(status == 1, final[f"result:{slot}"] == result))
        conj.append(final["F:_state"] == state)
        alts.append(z3.And(*conj))
    return z3.Or(*alts)


def obligation(name, config, K, kind):
    t0 = time.time()
    out: Dict[str, Any] = {"name": name, "status": "unknown", "message": "", "config": config, "K": K, "kind": kind}
    try:
        allow_nan = kind == "progress"
        vals, S, cs, opargs = build(config, K, allow_selfneq=allow_nan)
        V = vals.V
        s = z3.Solver()
        s.set("timeout", 300000)
        s.add(*cs)
        final = S.st[K]
        vf = S.const("init__validator")
        if kind == "linearizable":
            s.add(S.all_done())
            s.add(z3.Not(linearizable(vals, S, opargs)))
        elif kind == "validator":
            bad = []
            for k in range(K + 1):
                v = S.st[k]["F:_state"]
                bad.append(z3.And(v != S.const("init__state"),
                                  z3.Or(vals.throws[1](vf, v), z3.Not(vals.truthy(vals.app[1](vf, v))))))
            s.add(vf != V.nil, z3.Or(*bad))
        elif kind == "watch":
            s.add(final["g_badwatch"])
        elif kind == "deadlock":
            s.add(S.deadlock())
        elif kind == "completes":  # unwinding assertion: K is enough for every schedule
            s.add(S.not_finished_but_running())
        elif kind == "progress":  # a thread running alone finishes, whatever the stored value
            s.add(S.not_finished_but_running())
        elif kind == "reach":  # vacuity twin: some schedule completes with all ops returning
            s.add(S.all_done())
            for (t, j, op, a) in opargs:
                s.add(final[f"status:t{t}op{j}"] == 1)
            # and the schedule actually interleaves
            if len(config) > 1:
                s.add(z3.Or(*[S.sched[k] != S.sched[k + 1] for k in range(min(20, K - 1))]))
        tq = time.time()
        r = s.check()
        out["solver_s"] = time.time() - tq
        out["result"] = str(r)
        out["n_instr"] = [len(th.ins) for th in S.threads]
        out["lines"] = shared_lines(S)
        if r == z3.sat:
            m = s.model()
            out["trace"] = S.trace(m)
            out["model"] = {
                "init_state": str(m.eval(S.const("init__state"), model_completion=True)),
                "init_selfneq": str(m.eval(vals.selfneq(S.const("init__state")), model_completion=True)),
                "validator": str(m.eval(vf, model_completion=True)),
                "final_state": str(m.eval(final["F:_state"], model_completion=True)),
                "results": {f"t{t}op{j}": [str(m.eval(final[f"status:t{t}op{j}"], model_completion=True)),
                                          str(m.eval(final[f"result:t{t}op{j}"], model_completion=True))]
                            for (t, j, op, a) in opargs},
            }
        out["status"] = {"sat": "sat", "unsat": "unsat"}.get(str(r), "unknown")
    except Unsupported as e:
        out["message"] = f"unsupported: {e}"
    out["secs"] = time.time() - t0
    return out


# ------------------------------------------------------------------ replay of schedules on the real classes

REPLAY_SCHED = r'''
import json, threading, time
from basilisp.lang import atom as _atom, reference as _ref
TRACE = json.loads({trace!r})
CONFIG = json.loads({config!r})
LINES = set(map(tuple, json.loads({lines!r})))
ORDER = json.loads({order!r})
FILES = {{_atom.__file__: "atom.py", _ref.__file__: "reference.py"}}

def fns(t, j):
    return lambda x: x * 3 + (t * 2 + j + 1)

class Gate:
    """hands a token to one thread at a time; a thread stops at every `line` event of the traced
    files and continues when the controller names it"""
    def __init__(self, n):
        self.cv = threading.Condition()
        self.turn = None
        self.waiting = {{}}
        self.done = set()
        self.free_run = False
    def tracer(self, tid):
        def local(frame, event, arg):
            if event == "line" and not self.free_run and (FILES.get(frame.f_code.co_filename), frame.f_lineno) in LINES:
                with self.cv:
                    self.waiting[tid] = frame.f_lineno
                    self.cv.notify_all()
                    while self.turn != tid and not self.free_run:
                        self.cv.wait(0.05)
                    self.turn = None
                    self.waiting.pop(tid, None)
            return local
        def glob(frame, event, arg):
            if frame.f_code.co_filename in FILES:
                return local
            return None
        return glob

def run_schedule(a, order):
    gate = Gate(len(CONFIG))
    results = {{}}
    def worker(tid):
        import sys
        sys.settrace(gate.tracer(tid))
        try:
            for j, op in enumerate(CONFIG[tid]):
                try:
                    if op == "swap": r = a.swap(fns(tid, j))
                    elif op == "reset": r = a.reset(100 + tid * 10 + j)
                    elif op == "compare_and_set": r = a.compare_and_set(1, 200 + tid * 10 + j)
                    else: r = a.deref()
                    results[(tid, j)] = ("ret", r)
                except Exception as e:
                    results[(tid, j)] = ("exc", type(e).__name__)
        finally:
            sys.settrace(None)
            with gate.cv:
                gate.done.add(tid); gate.cv.notify_all()
    ths = [threading.Thread(target=worker, args=(t,), daemon=True) for t in range(len(CONFIG))]
    for t in ths: t.start()
    desync = 0
    for tid in order:
        deadline = time.time() + 2.0
        with gate.cv:
            while tid not in gate.waiting and tid not in gate.done and time.time() < deadline:
                gate.cv.wait(0.05)
            if tid in gate.done or tid not in gate.waiting:
                desync += 1
                continue
            gate.turn = tid
            gate.cv.notify_all()
            while gate.turn == tid and time.time() < deadline:
                gate.cv.wait(0.05)
    gate.free_run = True
    with gate.cv: gate.cv.notify_all()
    for t in ths: t.join(10)
    alive = [t for t in ths if t.is_alive()]
    return results, desync, alive

def sequential_outcomes():
    import itertools
    ops = [(t, j, op) for t, prog in enumerate(CONFIG) for j, op in enumerate(prog)]
    outs = []
    for perm in itertools.permutations(range(len(ops))):
        last = {{}}; ok = True
        for i in perm:
            t, j, _ = ops[i]
            if last.get(t, -1) > j: ok = False; break
            last[t] = j
        if not ok: continue
        a = _atom.Atom(1); res = {{}}
        for i in perm:
            t, j, op = ops[i]
            if op == "swap": r = a.swap(fns(t, j))
            elif op == "reset": r = a.reset(100 + t * 10 + j)
            elif op == "compare_and_set": r = a.compare_and_set(1, 200 + t * 10 + j)
            else: r = a.deref()
            res[(t, j)] = ("ret", r)
        outs.append((a.deref(), res))
    return outs
'''

REPLAY_LIN = REPLAY_SCHED + r'''
if __name__ == "__main__":
    order = ORDER
    a = _atom.Atom(1)
    results, desync, alive = run_schedule(a, order)
    if alive:
        print("REPRODUCED: threads did not terminate under the model's schedule"); sys.exit(1)
    outs = sequential_outcomes()
    if not any(a.deref() == fin and results == res for fin, res in outs):
        print("REPRODUCED: outcome", a.deref(), results, "matches no sequential order; desync=", desync); sys.exit(1)
    print("HOLDS final=", a.deref(), "desync=", desync)
'''

REPLAY_WATCH = REPLAY_SCHED + r'''
def chain_ok(init, final, notes):
    """every notification is a real transition <=> the notifications can be ordered into a chain init -> ... -> final"""
    import itertools
    if not notes:
        return init == final
    for perm in itertools.permutations(notes):
        cur = init
        ok = True
        for (o, n) in perm:
            if o != cur:
                ok = False
                break
            cur = n
        if ok and cur == final:
            return True
    return False
if __name__ == "__main__":
    order = ORDER
    a = _atom.Atom(1)
    notes = []
    a.add_watch("w", lambda k, ref, old, new: notes.append((old, new)))
    results, desync, alive = run_schedule(a, order)
    if alive:
        print("REPRODUCED: threads did not terminate under the model's schedule"); sys.exit(1)
    if not chain_ok(1, a.deref(), notes):
        print("REPRODUCED: watch notifications", notes, "are not the real transitions of the atom (initial 1, final", a.deref(), "); desync=", desync); sys.exit(1)
    print("HOLDS notifications=", notes, "desync=", desync)
'''

REPLAY_PROGRESS = r'''
import threading
from basilisp.lang import atom as _atom
nan = float("nan")
a = _atom.Atom(nan)
done = []
def work():
    {call}
    done.append(1)
t = threading.Thread(target=work, daemon=True); t.start(); t.join(5)
if not done:
    print("REPRODUCED: {opname} on an atom holding NaN (a value not equal to itself) did not return within 5 s")
    sys.exit(1)
print("HOLDS")
'''


def mark_line_events(trace):
    """approximate which model steps correspond to a CPython `line` event: the first instruction of
    each (thread, file, line) occurrence that is not a parameter binding"""
    last = {}
    for e in trace:
        key = (e["file"], e["line"])
        is_bind = e["note"].startswith("bind") or e["kind"] in ("op_done",) or e["line"] == 0
        e["lineevent"] = (not is_bind) and last.get(e["thread"]) != key and not e["note"].startswith(("return leaves", "exception unwinds", "implicit"))
        if not is_bind:
            last[e["thread"]] = key
    return trace


WRAPPERS = r'''
ATOM, SWAP, RESET, SWAPV, RESETV, CAS, DEREF = (cfn(n) for n in ("atom", "swap!", "reset!", "swap-vals!", "reset-vals!", "compare-and-set!", "deref"))
ADDW, SETV = cfn("add-watch"), cfn("set-validator!")
def DIAG(**k):
    return k
'''


def wrapper_specs(timeout):
    """sequential semantics of the core wrappers (core.lpy implements swap!/reset! itself on top of compare-and-set!)"""
    from ..chx.driver import Spec
    from ..chx.lisp import harness
    body = '''    a = ATOM(init)
    seen = []
    ADDW(a, "w", lambda k, ref, old, new: seen.append((old, new)))
    model = init
    transitions = []
    for op, v in ((o0, v0), (o1, v1), (o2, v2)):
        if op == 0:
            r = SWAP(a, lambda x, y: x + y, v); want = model + v
            if r != want: return False
            transitions.append((model, want)); model = want
        elif op == 1:
            r = RESET(a, v)
            if r != v: return False
            transitions.append((model, v)); model = v
        elif op == 2:
            r = list(SWAPV(a, lambda x: x * 2))
            if r != [model * 2, model] and r != [model, model * 2]: return False
            transitions.append((model, model * 2)); model = model * 2
        elif op == 3:
            r = list(RESETV(a, v))
            if r != [v, model] and r != [model, v]: return False
            transitions.append((model, v)); model = v
        elif op == 4:
            r = CAS(a, v, v + 1)
            if r is not (model == v): return False
            if r:
                transitions.append((model, v + 1)); model = v + 1
        if DEREF(a) != model:
            return False
    return seen == transitions'''
    s1 = Spec("core-wrappers/sequential-semantics+watches",
              harness("init: int, o0: int, v0: int, o1: int, v1: int, o2: int, v2: int", body,
                      pre=["0 <= o0 < 5", "0 <= o1 < 5", "0 <= o2 < 5"], module_code=WRAPPERS, warm=[(1, 0, 2, 1, 3, 4, 3)]),
              timeout=timeout, bound="3 operations among swap!/reset!/swap-vals!/reset-vals!/compare-and-set! with symbolic ints; one watch",
              meta={"kind": "wrappers"})
    body = '''    a = ATOM(init)
    SETV(a, lambda x: x >= 0)
    model = init
    for op, v in ((o0, v0), (o1, v1)):
        try:
            if op == 0:
                SWAP(a, lambda x, y: x + y, v); new = model + v
            elif op == 1:
                RESET(a, v); new = v
            else:
                ok = CAS(a, model, v); new = v
            if new < 0:
                return False          # an invalid value was accepted
            model = new
        except Exception:
            if (model + v if op == 0 else v) >= 0:
                return False          # a valid value was rejected
        if DEREF(a) != model or DEREF(a) < 0:
            return False
    return True'''
    s2 = Spec("core-wrappers/validator", harness("init: int, o0: int, v0: int, o1: int, v1: int", body,
                                                 pre=["init >= 0", "0 <= o0 < 3", "0 <= o1 < 3"], module_code=WRAPPERS, warm=[(1, 0, 2, 1, -3)]),
              timeout=timeout, bound="2 operations with a validator (x >= 0); values symbolic ints", meta={"kind": "wrappers"})
    return [s1, s2]


def run(rep, tier, seed):
    from ..chx.flow import run_specs
    if getattr(rep, "only", None) is None or "wrappers" in rep.only:
        rep.encoded_lisp("src/basilisp/core.lpy", ["swap!", "reset!", "swap-vals!", "reset-vals!", "compare-and-set!", "add-watch", "set-validator!"],
                         "compiled from source, executed on CrossHair symbolic ints (single thread)")
        run_specs(rep, wrapper_specs(60 if tier == "quick" else 300), lambda s_, c: {"kind": "wrappers"}, lambda s_, c: f"{s_.name}: {c}")
    rep.encoded(ATOM, ["Atom._compare_and_set", "Atom.compare_and_set", "Atom.deref", "Atom.reset", "Atom.swap"],
                "compiled to a statement-granularity CFG (vlib/pysym/cfg.py), unrolled with a symbolic schedule")
    rep.encoded(REF, ["RefBase._validate", "RefBase._notify_watches"], "inlined into the CFG")
    quick = tier == "quick"
    configs2 = [[["swap"], ["swap"]], [["swap"], ["reset"]], [["compare_and_set"], ["swap"]], [["swap"], ["deref"]],
                [["reset"], ["compare_and_set"]]]
    if not quick:
        configs2 += [[["swap", "swap"], ["swap"]], [["swap", "reset"], ["compare_and_set"]],
                     [["swap"], ["swap"], ["swap"]], [["swap"], ["reset"], ["compare_and_set"]]]
    jobs = []

    def K_for(config):
        # per thread: one attempt of each op plus one retry per op of every other thread
        vals, S, _, _ = build(config, 1)
        lens = [len(S.cut_points(th)) for th in S.threads]
        nops = [len(p) for p in config]
        k = 0
        for t, L in enumerate(lens):
            others = sum(nops) - nops[t]
            k += L + (L // max(1, nops[t])) * others
        return k

    for cfg in configs2:
        tag = "|".join(",".join(p) for p in cfg)
        K = K_for(cfg)
        for kind in ("reach", "completes", "linearizable", "validator", "watch", "deadlock"):
            jobs.append((f"{kind}/{tag}", cfg, K, kind))
    for op in ("reset", "swap", "compare_and_set", "deref"):
        vals, S, _, _ = build([[op]], 1)
        L = len(S.cut_points(S.threads[0]))
        jobs.append((f"progress/{op}", [[op]], 2 * L + 2, "progress"))
    only = getattr(rep, "only", None)
    if only:
        jobs = [j for j in jobs if only in j[0]]
    results = run_parallel([(lambda j=j: obligation(*j)) for j in jobs], procs=16)
    validated = 0
    steps = 0
    for (name, cfg, K, kind), r in zip(jobs, results):
        rep.solver_s += r.get("solver_s", 0.0)
        rep.queries += 1
        steps += K
        bound = f"{len(cfg)} threads, ops {cfg}, K={K} statement-steps, all schedules, uninterpreted values/functions"
        res = Result(name, INCONCLUSIVE, bound=bound, engine="B:cfg+bmc(z3)", secs=r["secs"],
                     stats={"solver_s": round(r.get("solver_s", 0), 2), "instructions": r.get("n_instr")})
        st = r["status"]
        if kind == "reach":
            # the twin must be sat; its schedule is replayed on the real Atom (validates CFG + line mapping)
            if st == "sat":
                tr = mark_line_events(r["trace"])
                body = REPLAY_LIN.format(trace=json.dumps(tr), config=json.dumps(cfg), lines=json.dumps(r["lines"]), order=json.dumps(grants(r["trace"])))
                path = env.write_replay(rep.prop, "sched_" + name, body)
                ok, line = env.replay_reproduces(path, timeout=120)
                if ok:
                    res.verdict, res.replay, res.detail, res.witness = REFUTED, path, line, {"schedule": [e["thread"] for e in tr]}
                    rep.classify_refutation(res, {"kind": "replayed-schedule-not-linearizable"}, line)
                elif "holds" in line:
                    validated += 1
                    res.verdict = PROVED
                    res.detail = "reachability twin sat; its schedule replayed on the real Atom with line-gated threads: sequentially consistent"
                else:
                    res.detail = "twin sat but schedule replay failed: " + line
            else:
                res.detail = f"vacuity twin not satisfiable ({st}): bound too small or encoding broken"
        elif st == "unsat":
            res.verdict = PROVED
            res.detail = "unsat: no schedule / values within the bound violate it"
        elif st == "sat":
            res.witness = {"model": r.get("model"), "schedule": [(e["thread"], e["line"]) for e in r.get("trace", [])][:80]}
            if kind == "progress":
                op = cfg[0][0]
                call = {"reset": "a.reset(1)", "swap": "a.swap(lambda x: 1)", "compare_and_set": "a.compare_and_set(nan, 1)",
                        "deref": "a.deref()"}[op]
                path = env.write_replay(rep.prop, name, REPLAY_PROGRESS.format(call=call, opname=op))
                ok, line = env.replay_reproduces(path, timeout=60)
            else:
                tr = mark_line_events(r["trace"])
                body = (REPLAY_WATCH if kind == "watch" else REPLAY_LIN).format(trace=json.dumps(tr), config=json.dumps(cfg), lines=json.dumps(r["lines"]),
                                                                                order=json.dumps(grants(r["trace"])))
                path = env.write_replay(rep.prop, name, body)
                ok, line = env.replay_reproduces(path, timeout=120)
            res.reproduced = ok
            if ok:
                res.verdict, res.replay, res.detail = REFUTED, path, line[:300]
                rep.classify_refutation(res, {"kind": kind, "op": cfg[0][0] if kind == "progress" else "*"}, line[:200])
            else:
                rep.nonrepro += 1
                res.detail = f"model found but replay on the real Atom does not show it: {line[:200]}"
        else:
            res.detail = r.get("message") or f"solver: {r.get('result')}"
        rep.add(res)
    rep.extra["traces_validated_against_impl"] = validated
    rep.extra["explanation"] = ("SMT-based bounded model checking: states/transitions are symbolic, not enumerated; "
                                "'transitions' is not a count of explored edges")
    rep.bounds = {"threads": "2 (quick) / 2-3 (thorough)", "ops_per_thread": "1 (quick) / 1-2 (thorough)",
                  "granularity": "one simple statement of atom.py/reference.py per step",
                  "values": "uninterpreted; NaN-like self-unequal values only in progress obligations",
                  "total_unrolled_steps": steps}
    rep.outside = ["thread switches inside a single statement", "more than 3 threads / 2 ops per thread",
                   "distinct-but-equal stored values (== without identity)", "watch functions that re-enter the atom"]
    rep.assumptions += ["threading.RLock is a correct re-entrant mutex", "update/validator functions are pure (same argument, same result)",
                        "multi-thread obligations assume stored values are equal to themselves (progress obligations drop this)"]
    rep.trusted += ["z3 5.1.0", "vlib/pysym/cfg.py + bmc.py (validated by replaying solver-chosen schedules on the real class)"]
