"""C09 — syntax-quote is hygienic; destructuring binds what nth/get would return (Engine A)."""
from __future__ import annotations

from ..chx.driver import Spec
from ..chx.flow import run_specs
from ..chx.lisp import harness

LEVEL = "other"

MODULE = r'''
NTH, NTHNEXT, GET, SEQ, EQ = cfn("nth"), cfn("nthnext"), cfn("get"), cfn("seq"), cfn("=")
K = kw.keyword
def canon(x):
    if x is None or isinstance(x, (bool, int, str)):
        return (type(x).__name__, x)
    if isinstance(x, kw.Keyword):
        return ("kw", x.ns, x.name)
    if isinstance(x, sym.Symbol):
        return ("sym", x.ns, x.name)
    if isinstance(x, lmap.PersistentMap):
        return ("map", sorted(((canon(k), canon(v)) for k, v in x.items()), key=repr))
    if isinstance(x, lset.PersistentSet):
        return ("set", sorted((canon(e) for e in x), key=repr))
    if isinstance(x, vec.PersistentVector):
        return ("vec", [canon(e) for e in x])
    if isinstance(x, (list, tuple)):
        return ("seq", [canon(e) for e in x])
    return ("seq", [canon(e) for e in seq_list(x)])
def as_seq_or_nil(x):
    """rest bindings are seqs (or nil when nothing is left)"""
    return ("seq", [canon(e) for e in seq_list(x)]) if x is not None and seq_list(x) else ("NoneType", None)
def nth(v, i):
    return NTH(v, i, None) if v is not None else None
def outcome(thunk):
    try:
        return ("ret", thunk())
    except Exception as e:
        return ("exc", type(e).__name__)
def DIAG(**k):
    try:
        v = mkval(**k)
        return {"value": repr(v), "compiled": repr(outcome(lambda: canon(F(v)))), "macroexpanded": repr(outcome(lambda: canon(FX(v)))),
                "reference": repr(outcome(lambda: canon(REF(v))))}
    except Exception as e:
        return {"diag_error": repr(e)}
'''

# name -> (binding form kind, pattern, names returned, python reference over v)
SEQ_PATTERNS = {
    "vec-rest-as": ("[a b & r :as all]", "[a b r all]", "[nth(v, 0), nth(v, 1), NTHNEXT(v, 2), v]"),
    "vec-nested": ("[[a b] c]", "[a b c]", "[nth(nth(v, 0), 0), nth(nth(v, 0), 1), nth(v, 1)]"),
    "vec-skip": ("[_ _ c]", "[c]", "[nth(v, 2)]"),
}
MAP_PATTERNS = {
    "keys-or-as": ("{:keys [a b] :or {b 7} :as m}", "[a b m]", "[GET(v, K('a')), GET(v, K('b'), 7), v]"),
    "strs-syms": ("{:strs [a] :syms [b]}", "[a b]", "[GET(v, 'a'), GET(v, sym.symbol('b'))]"),
    "renamed-nested": ("{x :a [y z] :b}", "[x y z]", "[GET(v, K('a')), nth(GET(v, K('b')), 0), nth(GET(v, K('b')), 1)]"),
    "namespaced-keys": ("{:keys [q/a] :q/keys [b]}", "[a b]", "[GET(v, K('a', ns='q')), GET(v, K('b', ns='q'))]"),
    "or-only-when-missing": ("{:keys [a] :or {a 9}}", "[a]", "[GET(v, K('a'), 9)]"),
}
FORMS = {
    "let": "(fn [v] (let [{pat} v] {names}))",
    "fn-param": "(fn [{pat}] {names})",
    "loop": "(fn [v] (loop [{pat} v] {names}))",
}


def destructure_spec(pname, kind, pat, names, ref, form, timeout):
    src = FORMS[form].format(pat=pat, names=names)
    if kind == "seq":
        sig = "xs: List[Optional[int]], shape: int, inner: List[Optional[int]]"
        pre = ["len(xs) <= 3", "0 <= shape < 4", "len(inner) <= 2"]
        mkval = '''def mkval(xs, shape, inner):
    items = list(xs)
    if items and inner is not None:
        items[0] = vec.vector(inner) if NESTED else items[0]
    if shape == 0:
        return vec.vector(items)
    if shape == 1:
        return llist.list(items)
    if shape == 2:
        return None
    return cfn("map")(cfn("identity"), vec.vector(items))
'''
        call = "mkval(xs, shape, inner)"
        nested = "True" if "[[" in pat else "False"
    else:
        sig = "has_a: bool, a: Optional[int], has_b: bool, b: Optional[int], shape: int"
        pre = ["0 <= shape < 2"]
        mkval = '''def mkval(has_a, a, has_b, b, shape):
    if shape == 1:
        return None
    d = {}
    if has_a:
        for k in (K("a"), "a", K("a", ns="q")):
            d[k] = a
    if has_b:
        d[K("b")] = vec.vector([b, a]) if VECB else b
        d[sym.symbol("b")] = b
        d[K("b", ns="q")] = b
    return lmap.map(d)
'''
        call = "mkval(has_a, a, has_b, b, shape)"
        nested = "True" if "[y z]" in pat else "False"
    mod = MODULE + f'''
NESTED = {nested}
VECB = {nested}
SRC = {src!r}
F = lisp_eval(SRC, "verif.c09")
FX = lisp_eval("(eval (macroexpand (quote " + SRC + ")))", "verif.c09")
def REF(v):
    return vec.vector({ref})
''' + mkval
    body = f'''    v = {call}
    want = outcome(lambda: canon(REF(v)))
    got = outcome(lambda: canon(F(v)))
    gotx = outcome(lambda: canon(FX(v)))
    if want[0] == "exc":
        return got[0] == "exc" and gotx[0] == "exc"
    return norm(got) == norm(want) and norm(gotx) == norm(want)'''
    mod += '''
def norm(o):
    """rest bindings: a seq and the list of the same elements are the same thing; empty rest is nil"""
    def n(c):
        if isinstance(c, tuple) and c and c[0] in ("seq", "vec") :
            return (c[0] if c[0] == "vec" else "seq", [n(e) for e in c[1]])
        return c
    return (o[0], n(o[1])) if o[0] == "ret" else o
'''
    return Spec(f"destructure/{pname}/{form}", harness(sig, body, pre=pre, module_code=mod, warm=[]), timeout=timeout,
                bound="; ".join(pre), meta={"kind": "destructure", "pattern": pname})


GRAMMAR_MODULE = MODULE + r'''
APPLY = cfn("apply")
QUICK = False
def keyobj(k):
    if k[0] == "kw":
        return K(k[2], ns=k[1]) if k[1] else K(k[2])
    if k[0] == "str":
        return k[1]
    if k[0] == "sym":
        return sym.symbol(k[2], ns=k[1]) if k[1] else sym.symbol(k[2])
    return k[1]
def map_keys(p):
    """[(binding pattern, key object)] in the order the pattern lists them"""
    out = []
    for e in p[1]:
        if e[0] == "keys":
            out += [(("sym", n), K(n, ns=e[1]) if e[1] else K(n)) for n in e[2]]
        elif e[0] == "strs":
            out += [(("sym", n), n) for n in e[1]]
        elif e[0] == "syms":
            out += [(("sym", n), sym.symbol(n, ns=e[1]) if e[1] else sym.symbol(n)) for n in e[2]]
        else:
            out.append((e[1], keyobj(e[2])))
    return out
def bind(p, v, env):
    """the documented meaning of a pattern, in terms of the real nth / nthnext / get"""
    if p[0] == "sym":
        env[p[1]] = v
        return
    if p[0] == "vec":
        _, ch, rest, as_ = p
        for i, c in enumerate(ch):
            bind(c, NTH(v, i, None), env)
        if rest:
            env[rest] = NTHNEXT(v, len(ch))
        if as_:
            env[as_] = v
        return
    _, entries, ors, as_ = p
    for bp, key in map_keys(p):
        if bp[0] == "sym" and bp[1] in ors:
            bind(bp, GET(v, key, eval(ors[bp[1]][1])), env)
        else:
            bind(bp, GET(v, key), env)
    if as_:
        env[as_] = v
class Ch:
    """solver-chosen shape codes and leaf values, consumed in pattern order"""
    def __init__(self, cs, ls):
        self.cs, self.ls, self.i, self.j = cs, ls, 0, 0
    def c(self):
        k = self.i % len(self.cs); x = self.cs[k]; self.i += 1
        if QUICK and k >= 2:
            return 0 if x == 0 else (2 if x == 1 else 3)      # deeper nodes: nil / conforming / short-or-subset
        return x
    def leaf(self):
        k = self.j % len(self.ls); x = self.ls[k]; self.j += 1
        if QUICK and k >= 3:
            return None if x == 0 else 1                       # later leaves: nil / int
        return None if x == -2 else (False if x == -1 else x)
def build(p, ch):
    """a value for pattern p: nil, wrongly typed, conforming, short, over-long, lazy, string; maps with any subset of keys"""
    if p[0] == "sym":
        return ch.leaf()
    c = ch.c()
    if p[0] == "vec":
        shape = c % 7
        if shape == 0: return None
        if shape == 1: return 5
        if shape == 6: return "ab"
        items = [build(x, ch) for x in p[1]]
        if shape == 2: return vec.vector(items + ([ch.leaf(), ch.leaf()] if p[2] else []))
        if shape == 3: return vec.vector(items[:-1])
        if shape == 4: return llist.list(items + [ch.leaf()])
        return cfn("map")(cfn("identity"), vec.vector(items))
    shape = c % 5
    if shape == 0: return None
    if shape == 1: return 5
    if shape == 4: return vec.vector([ch.leaf(), ch.leaf()])
    mask = ch.c() if shape == 3 else 15
    d = {}
    for i, (bp, key) in enumerate(map_keys(p)):
        if (mask // (2 ** (i % 4))) % 2 == 1:
            d[key] = build(bp, ch)      # a value is only chosen for keys that are present
    return lmap.map(d)
def kwargs_call(p, ch):
    """argument list for (fn [& <map pattern>] ...): interleaved pairs for a subset of the keys, optionally a trailing map
    (which overrides); returns (args, the map the documentation says is destructured)"""
    ks = map_keys(p)
    m1, m2, trailing = ch.c(), ch.c(), ch.c() % 2
    args, model = [], {}
    for i, (bp, key) in enumerate(ks):
        if (m1 // (2 ** (i % 4))) % 2 == 1:
            val = build(bp, ch); args += [key, val]; model[key] = val
    if trailing:
        t = {}
        ch2 = Ch(ch.cs, [7, 8, 9])      # trailing-map values are plain ints (the pairs already cover nil / false values)
        for i, (bp, key) in enumerate(ks):
            if (m2 // (2 ** (i % 4))) % 2 == 1:
                val = build(bp, ch2); t[key] = val; model[key] = val
        args.append(lmap.map(t))
    elif args and isinstance(args[-1], lmap.PersistentMap):
        # a final *value* that is itself a map would be taken for the documented trailing-map argument: say explicitly that there is none
        args.append(lmap.map({}))
    return args, (lmap.map(model) if args else None)
def refvec(v):
    env = {}
    bind(PAT, v, env)
    return vec.vector([env[n] for n in NAMES])
def norm(o):
    def n(c):
        if isinstance(c, tuple) and c and c[0] in ("seq", "vec"):
            return (c[0], [n(e) for e in c[1]])
        return c
    return (o[0], n(o[1])) if o[0] == "ret" else o
def mkval(cs, ls):
    return build(PAT, Ch(cs, ls))
def DIAG2(cs, ls):
    try:
        if KWARGS:
            args, m = kwargs_call(PAT, Ch(cs, ls))
            return {"args": repr(args), "compiled": repr(outcome(lambda: canon(APPLY(F, llist.list(args))))), "reference": repr(outcome(lambda: canon(refvec(m))))}
        v = mkval(cs, ls)
        return {"value": repr(v), "compiled": repr(outcome(lambda: canon(F(v)))), "macroexpanded": repr(outcome(lambda: canon(FX(v)))),
                "reference": repr(outcome(lambda: canon(refvec(v))))}
    except Exception as e:
        return {"diag_error": repr(e)}
'''


def grammar_spec(pname, pat, form, timeout, quick=False):
    from .c09_grammar import compound_nodes, names, src as psrc
    nm = []
    for n in names(pat):
        if n not in nm:
            nm.append(n)
    ncs = max(2, 2 * compound_nodes(pat)) + (3 if form == "kwargs" else 0)
    lsrc = FORMS[form].format(pat=psrc(pat), names="[" + " ".join(nm) + "]") if form != "kwargs" else f"(fn [& {psrc(pat)}] [{' '.join(nm)}])"
    mod = GRAMMAR_MODULE + f'''
PAT = {pat!r}
NAMES = {nm!r}
SRC = {lsrc!r}
F = lisp_eval(SRC, "verif.c09")
FX = lisp_eval("(eval (macroexpand (quote " + SRC + ")))", "verif.c09")
REF = refvec
KWARGS = {form == "kwargs"}
QUICK = {bool(quick and form != "kwargs")}
'''
    if form == "kwargs":
        body = '''    args, m = kwargs_call(PAT, Ch(cs, ls))
    want = outcome(lambda: canon(refvec(m)))
    got = outcome(lambda: canon(APPLY(F, llist.list(args))))
    gotx = outcome(lambda: canon(APPLY(FX, llist.list(args))))'''
    else:
        body = '''    v = mkval(cs, ls)
    want = outcome(lambda: canon(refvec(v)))
    got = outcome(lambda: canon(F(v)))
    gotx = outcome(lambda: canon(FX(v)))'''
    body += '''
    if want[0] == "exc":
        return got[0] == "exc" and gotx[0] == "exc"
    return norm(got) == norm(want) and norm(gotx) == norm(want)'''
    nls = 5
    pre = [f"0 <= c{i} < 16" for i in range(ncs)] + [f"-2 <= l{i} <= 2" for i in range(nls)]   # leaf code -2 = nil, -1 = false
    if quick and form != "kwargs":
        # quick tier: full shape range for the first two compound nodes, nil / conforming / short-or-subset for deeper ones;
        # full leaf range for the first three leaves, nil / int for the rest (the thorough tier lifts both restrictions)
        # (ranges, not disjunctions: a disjunctive precondition forks once per disjunct even for inputs the body never reads)
        pre = [f"0 <= c{i} < 16" if i < 2 else f"0 <= c{i} < 3" for i in range(ncs)] + \
              [f"-2 <= l{i} <= 2" if i < 3 else f"0 <= l{i} < 2" for i in range(nls)]
    sig = ", ".join([f"c{i}: int" for i in range(ncs)] + [f"l{i}: int" for i in range(nls)])
    body = f"    cs, ls = [{', '.join(f'c{i}' for i in range(ncs))}], [{', '.join(f'l{i}' for i in range(nls))}]\n" + body
    mod += "def DIAG(**k):\n    return DIAG2([v for n, v in sorted(k.items()) if n[0] == 'c'], [v for n, v in sorted(k.items()) if n[0] == 'l'])\n"
    return Spec(f"grammar/{pname}/{form}", harness(sig, body, pre=pre, module_code=mod, warm=[]), timeout=timeout,
                bound=("; ".join(pre) + "; " if quick else "") + f"pattern {psrc(pat)}; value shapes per compound node: nil, int, conforming, short, over-long, lazy seq, string / map with any key subset, "
                      "vector; leaves nil, false, 0..2",
                meta={"kind": "destructure-grammar", "pattern": pname, "pattern_src": psrc(pat), "form": form})


SQ_MODULE = MODULE + r'''
_ns = _get_ns("verif.c09")
lisp_eval("(def local-var 1) (require (quote [basilisp.string :as s]))", "verif.c09")
T1 = lisp_eval("(fn [x xs] `(a ~x ~@xs [~x #{~x}] {:k ~x} local-var map if s/join b# b#))", "verif.c09")
T2 = lisp_eval("(fn [x xs] `[~@xs ~x ~@xs])", "verif.c09")
T3 = lisp_eval("(fn [x xs] [`g# `g# `(~@xs)])", "verif.c09")
T3_READ_AGAIN = lisp_eval("(fn [x xs] [`g# `g# `(~@xs)])", "verif.c09")
T4 = lisp_eval("(fn [x xs] `(outer ~x (inner ~@xs ~(first xs)) #{~@xs}))", "verif.c09")
def S(name, ns=None):
    return ("sym", ns, name)
def DIAG(**k):
    return k
'''


SQG_MODULE = MODULE + r'''
_ns = _get_ns("verif.c09")
lisp_eval("(def local-var 1) (require (quote [basilisp.string :as s]))", "verif.c09")
def expect(t, inst, counter, x, xs):
    """what the template denotes: symbols resolved as the documentation says, gensyms as placeholders per template instance"""
    k = t[0]
    if k == "sym":
        kind, text = t[1], t[2]
        if text.startswith(":"):
            return ("kw", text[1:])
        if kind == "core":
            return ("sym", "basilisp.core", text)
        if kind == "alias":
            return ("sym", "basilisp.string", text.split("/")[1])
        if kind == "special":
            return ("sym", None, text)
        return ("sym", "verif.c09", text)
    if k == "gensym":
        return ("G", inst, t[1])
    if k == "unq":
        return ("val", x)
    if k == "nested":
        counter[0] += 1
        return expect(t[1], counter[0], counter, x, xs)
    if k == "map":
        return ("map", [(expect(a, inst, counter, x, xs), expect(b, inst, counter, x, xs)) for a, b in t[1]])
    items = []
    for e in t[1]:
        if e[0] == "splice":
            items += [("val", v) for v in xs]
        else:
            items.append(expect(e, inst, counter, x, xs))
    return (k, items)
def match(actual, exp, env):
    tag = exp[0]
    if tag == "kw":
        return isinstance(actual, kw.Keyword) and actual.ns is None and actual.name == exp[1]
    if tag == "sym":
        return isinstance(actual, sym.Symbol) and actual.ns == exp[1] and actual.name == exp[2]
    if tag == "val":
        return type(actual) is type(exp[1]) and actual == exp[1]
    if tag == "G":
        if not (isinstance(actual, sym.Symbol) and actual.ns is None and actual.name.startswith(exp[2] + "_")):
            return False
        key = (exp[1], exp[2])
        if key in env:
            return env[key] == actual                  # one symbol within a template
        if any(v == actual for v in env.values()):
            return False                               # fresh across templates (and across different names)
        env[key] = actual
        return True
    if tag == "vec":
        return isinstance(actual, vec.PersistentVector) and len(actual) == len(exp[1]) and all(match(a, e, env) for a, e in zip(actual, exp[1]))
    if tag == "list":
        if isinstance(actual, (vec.PersistentVector, lset.PersistentSet, lmap.PersistentMap)) or not (actual is None or isinstance(actual, ISeq) or isinstance(actual, llist.PersistentList)):
            return False
        items = seq_list(actual) if actual is not None else []
        return len(items) == len(exp[1]) and all(match(a, e, env) for a, e in zip(items, exp[1]))
    if tag == "set":
        if not isinstance(actual, lset.PersistentSet) or len(actual) != len(exp[1]):
            return False
        left = list(actual)
        for e in exp[1]:                               # small sets: first fit (gensym placeholders are tried last)
            hit = None
            for a in left:
                trial = dict(env)
                if match(a, e, trial):
                    hit = (a, trial); break
            if hit is None:
                return False
            left.remove(hit[0]); env.clear(); env.update(hit[1])
        return True
    if tag == "map":
        if not isinstance(actual, lmap.PersistentMap) or len(actual) != len(exp[1]):
            return False
        for ke, ve in exp[1]:
            found = [k for k in actual.keys() if match(k, ke, dict(env))]
            if len(found) != 1 or not match(actual.val_at(found[0]), ve, env):
                return False
        return True
    return False
def DIAG(**k):
    xs = [k["c0"], k["c1"]][:k["ln"]]
    return {"template": SRC, "produced": repr(T(k["x"], llist.list(xs))), "x": k["x"], "xs": xs}
'''


def sq_template_spec(name, tmpl, timeout):
    from .c09_sq import src as tsrc
    lsrc = "(fn [x xs] `" + tsrc(tmpl) + ")"
    mod = SQG_MODULE + f'''
TMPL = {tmpl!r}
SRC = {lsrc!r}
T = lisp_eval(SRC, "verif.c09")
T_AGAIN = lisp_eval(SRC, "verif.c09")
'''
    body = '''    xs = [c0, c1][:ln]
    got = T(x, llist.list(xs))
    env = {}
    if not match(got, expect(TMPL, 0, [0], x, xs), env):
        return False
    # the same text read a second time: same shape, and none of its gensyms is one of the first read's
    env2 = {}
    got2 = T_AGAIN(x, llist.list(xs))
    return match(got2, expect(TMPL, 0, [0], x, xs), env2) and not any(a == b for a in env.values() for b in env2.values())'''
    pre = ["0 <= x <= 2", "0 <= ln <= 2", "0 <= c0 <= 2", "0 <= c1 <= 2", "c0 != c1", "c0 != x", "c1 != x"]
    return Spec(f"syntax-quote-grammar/{name}", harness("x: int, ln: int, c0: int, c1: int", body, pre=pre, module_code=mod, warm=[]), timeout=timeout,
                bound=f"template `{tsrc(tmpl)}; unquoted int, spliced seq of <= 2 distinct ints", meta={"kind": "syntax-quote-grammar", "template": tsrc(tmpl)})


def syntax_quote_specs(timeout):
    out = []
    sig, pre = "x: int, xs: List[Optional[int]]", ["len(xs) <= 3", "0 <= x <= 3", "all(e is None or 0 <= e <= 3 for e in xs)"]
    body = '''    r = seq_list(T1(x, llist.list(xs)))
    n = len(xs)
    if len(r) != 2 + n + 8:
        return False
    gens = r[-2:]
    return (canon(r[0]) == S("a", "verif.c09") and r[1] == x and [canon(e) for e in r[2:2 + n]] == [canon(e) for e in xs]
            and isinstance(r[2 + n], vec.PersistentVector) and canon(r[2 + n]) == ("vec", [canon(x), ("set", [canon(x)])])
            and isinstance(r[3 + n], lmap.PersistentMap) and canon(r[3 + n]) == ("map", [(("kw", None, "k"), canon(x))])
            and canon(r[4 + n]) == S("local-var", "verif.c09") and canon(r[5 + n]) == S("map", "basilisp.core")
            and canon(r[6 + n]) == S("if") and canon(r[7 + n]) == S("join", "basilisp.string")
            and isinstance(gens[0], sym.Symbol) and gens[0] == gens[1] and gens[0].ns is None and gens[0].name.startswith("b_"))'''
    out.append(Spec("syntax-quote/list-template", harness(sig, body, pre=pre, module_code=SQ_MODULE, warm=[(1, [2, None])]), timeout=timeout,
                    bound="unquoted int, spliced list of <= 3 nil/int", meta={"kind": "syntax-quote"}))
    body = '''    r = T2(x, vec.vector(xs))
    return isinstance(r, vec.PersistentVector) and [canon(e) for e in r] == [canon(e) for e in (list(xs) + [x] + list(xs))]'''
    out.append(Spec("syntax-quote/vector-splice-twice", harness(sig, body, pre=pre, module_code=SQ_MODULE, warm=[(1, [2, None])]), timeout=timeout,
                    bound="spliced vector of <= 3", meta={"kind": "syntax-quote"}))
    body = '''    g1, g2, l = T3(x, llist.list(xs))
    g3 = T3_READ_AGAIN(x, llist.list(xs))[0]   # the same text read a second time
    return (isinstance(g1, sym.Symbol) and g1 != g2 and g1 != g3 and [canon(e) for e in seq_list(l)] == [canon(e) for e in xs]
            and (len(xs) > 0 or l is None or seq_list(l) == []))'''
    out.append(Spec("syntax-quote/gensym-fresh-per-template", harness(sig, body, pre=pre, module_code=SQ_MODULE, warm=[(1, [2])]), timeout=timeout,
                    bound="two templates, two expansions", meta={"kind": "syntax-quote"}))
    body = '''    r = seq_list(T4(x, llist.list(xs)))
    inner = seq_list(r[2])
    return (canon(r[0]) == S("outer", "verif.c09") and r[1] == x and canon(inner[0]) == S("inner", "verif.c09")
            and [canon(e) for e in inner[1:1 + len(xs)]] == [canon(e) for e in xs] and canon(inner[-1]) == canon(xs[0] if xs else None)
            and isinstance(r[3], lset.PersistentSet) and canon(r[3]) == canon(lset.set(list(xs))))'''
    out.append(Spec("syntax-quote/nested-template", harness(sig, body, pre=pre + ["len(set(xs)) == len(xs)"], module_code=SQ_MODULE, warm=[(1, [2, 3])]),
                    timeout=timeout, bound="nested list + set splice, distinct elements", meta={"kind": "syntax-quote"}))
    return out


def run(rep, tier, seed):
    quick = tier == "quick"
    to = 60 if quick else 150
    rep.encoded_lisp("src/basilisp/core.lpy", ["destructure", "let", "fn", "loop", "macroexpand"], "compiled from source")
    rep.encoded("src/basilisp/lang/reader.py", ["_read_syntax_quoted", "_process_syntax_quoted_form", "_expand_syntax_quote"], "executed when the templates are read")
    rep.encoded("src/basilisp/lang/compiler/analyzer.py", ["macroexpand", "macroexpand_1"], "executed")
    specs = []
    forms = ["let", "fn-param"] if quick else list(FORMS)
    for pname, (pat, names, ref) in SEQ_PATTERNS.items():
        for f in forms:
            specs.append(destructure_spec(pname, "seq", pat, names, ref, f, to))
    for pname, (pat, names, ref) in MAP_PATTERNS.items():
        for f in forms:
            specs.append(destructure_spec(pname, "map", pat, names, ref, f, to))
    # generated patterns over the documented vocabulary (depth <= 3): featured ones in every run + seeded random ones
    from .c09_grammar import generate
    gforms = ["let", "fn-param", "loop"]
    for i, (pname, pat) in enumerate(generate(seed, 14, 3, 4) if quick else generate(seed, 30)):
        fs = [gforms[i % 3]] if quick else gforms
        if pat[0] == "map" and (not quick or pname.endswith("defaults")):
            fs = fs + ["kwargs"]
        for f in fs:
            from .c09_grammar import compound_nodes as _cn, names as _nm
            big = _cn(pat) >= 3 or len(_nm(pat)) >= 4
            specs.append(grammar_spec(pname, pat, f, to * 2 if (quick and big) else to, quick))
    specs += syntax_quote_specs(to)
    from .c09_sq import generate as sq_generate
    specs += [sq_template_spec(n_, t_, to) for n_, t_ in sq_generate(seed, 8 if quick else 40)]
    rep.bounds = {"destructuring": f"{len(SEQ_PATTERNS) + len(MAP_PATTERNS)} patterns (depth <= 2) x {forms}; values: vector/list/lazy seq/nil of <= 3 "
                                   "nil/int (one nested), maps with symbolic key presence, nil",
                  "syntax-quote": "4 templates; unquoted int, spliced seq of <= 3; gensyms: same within a template, different between templates and between two reads of the same text"}
    rep.outside = ["syntax-quote templates: 4 fixed + a generated sample (c09_sq.py), evaluated forms are compared structurally, not executed", "patterns are a generated sample of the grammar, not all of it", "rest patterns that are themselves patterns (not in the documented vocabulary)"]
    rep.trusted += ["crosshair-tool 0.0.110 + z3"]
    rep.extra["explanation"] = ("the oracle for destructuring is the real nth / nthnext / get applied by a 1-line reference per pattern; "
                                "form and (macroexpand form) are both compiled and compared on the same symbolic values")

    def matcher(spec, cex):
        if spec.meta["kind"] == "syntax-quote-grammar":
            return {"kind": "syntax-quote-grammar", "template": spec.meta["template"]}
        if spec.meta["kind"] == "destructure-grammar":
            return {"kind": "destructure-grammar", "pattern_src": spec.meta["pattern_src"], "form": spec.meta["form"]}
        return {"kind": spec.meta["kind"], "pattern": spec.meta.get("pattern", "")}

    run_specs(rep, specs, matcher, lambda s, c: f"{s.name}: {c}")
