"""C08 — calls bind arguments to the right arity however the call is made (Engine A)."""
from __future__ import annotations

from ..chx.driver import Spec
from ..chx.flow import run_specs
from ..chx.lisp import harness

LEVEL = "other"

# (fixed arities, variadic minimum or None)
SIGNATURES = [((0,), None), ((1,), None), ((2,), None), ((0, 2), None), ((1, 3), None), ((), 0), ((), 1), ((), 2), ((1,), 2), ((0, 2), 3),
              ((2,), 2), ((0, 1, 2, 3), None), ((0,), 1)]


def lisp_fn(fixed, var):
    ars = []
    for n in fixed:
        ps = " ".join(f"p{i}" for i in range(n))
        ars.append(f"([{ps}] (ran!) [:fixed {n} [{ps}] nil])")
    if var is not None:
        ps = " ".join(f"p{i}" for i in range(var))
        ars.append(f"([{ps} & more] (ran!) [:variadic {var} [{ps}] more])")
    return "(fn " + " ".join(ars) + ")"


MODULE = r'''
RAN = []
_ns = _get_ns("verif.c08")
rt.Var.intern(sym.symbol("verif.c08"), sym.symbol("ran!"), lambda: RAN.append(1))
F = lisp_eval(__LISP__, "verif.c08")
lisp_eval("(def the-fn " + __LISP__ + ")", "verif.c08")
VIA_VAR = lisp_eval("(fn [& args] (apply (var the-fn) args))", "verif.c08")
CALL_VAR = rt.Var.find(sym.symbol("the-fn", ns="verif.c08"))
APPLY = cfn("apply"); PARTIAL = cfn("partial")
FIXED, VAR = __FIXED__, __VAR__
class Counting:
    def __init__(self, xs):
        self.xs, self.i = list(xs), 0
    def __iter__(self): return self
    def __next__(self):
        if self.i >= len(self.xs): raise StopIteration
        self.i += 1
        return self.xs[self.i - 1]
def expected(args):
    n = len(args)
    if n in FIXED:
        return ("fixed", n, list(args), None)
    if VAR is not None and n >= VAR:
        return ("variadic", VAR, list(args[:VAR]), list(args[VAR:]) or None)
    return ("arity-error",)
def observe(thunk):
    del RAN[:]
    try:
        r = thunk()
    except (TypeError, rt.RuntimeException):
        return ("arity-error",) if not RAN else ("error-after-body-ran",)
    tag, n, params, more = r
    return (tag.name, n, list(params), (seq_list(more) or None) if more is not None else None)
def DIAG(**k):
    return k
'''


def mk_module(fixed, var):
    return MODULE.replace("__LISP__", repr(lisp_fn(fixed, var))).replace("__FIXED__", repr(tuple(fixed))).replace("__VAR__", repr(var))


ARGS = "a0: int, a1: int, a2: int, a3: int, a4: int"
ALL = "[a0, a1, a2, a3, a4]"


def specs_for(fixed, var, timeout):
    tag = "+".join(map(str, fixed)) + (f"+&{var}" if var is not None else "")
    mod = mk_module(fixed, var)
    out = []
    body = f'''    args = {ALL}[:n]
    want = expected(args)
    return (observe(lambda: F(*args)) == want and observe(lambda: CALL_VAR.value(*args)) == want
            and observe(lambda: CALL_VAR(*args)) == want and observe(lambda: VIA_VAR(*args)) == want)'''
    out.append(Spec(f"sig[{tag}]/direct+var", harness("n: int, " + ARGS, body, pre=["0 <= n <= 5"], module_code=mod, warm=[(1, 1, 2, 3, 4, 5)]),
                    timeout=timeout, bound="0..5 arguments, values symbolic", meta={"sig": tag, "shape": "direct"}))
    body = f'''    args = {ALL}[:n]
    lead, tail = args[:k], args[k:]
    want = expected(args)
    for mk in (lambda t: vec.vector(t), lambda t: llist.list(t), lambda t: cfn("iterator-seq")(Counting(t))):
        if observe(lambda: APPLY(F, *lead, mk(tail))) != want:
            return False
    return True'''
    out.append(Spec(f"sig[{tag}]/apply", harness("n: int, k: int, " + ARGS, body, pre=["0 <= n <= 5", "0 <= k <= n"], module_code=mod, warm=[(3, 1, 1, 2, 3, 4, 5)]),
                    timeout=timeout, bound="apply with k leading args and a tail of length n-k (vector / list / lazy iterator seq)", meta={"sig": tag, "shape": "apply"}))
    body = f'''    args = {ALL}[:n]
    want = expected(args)
    return observe(lambda: PARTIAL(F, *args[:j])(*args[j:])) == want'''
    out.append(Spec(f"sig[{tag}]/partial", harness("n: int, j: int, " + ARGS, body, pre=["0 <= n <= 5", "0 <= j <= min(n, 3)"], module_code=mod, warm=[(3, 1, 1, 2, 3, 4, 5)]),
                    timeout=timeout, bound="partial of j <= 3 arguments then the remaining n-j", meta={"sig": tag, "shape": "partial"}))
    if var is not None:
        body = f'''    lead = {ALL}[:k]
    it = Counting(range(100, 100 + t))
    r = observe(lambda: APPLY(F, *lead, cfn("iterator-seq")(it)))
    n = k + t
    if r != expected(lead + list(range(100, 100 + t))):
        return False
    return True'''
        out.append(Spec(f"sig[{tag}]/apply-lazy-tail", harness("k: int, t: int, " + ARGS, body, pre=["0 <= k <= 3", "0 <= t <= 4"], module_code=mod, warm=[(1, 2, 1, 2, 3, 4, 5)]),
                        timeout=timeout, bound="apply with a lazily produced tail", meta={"sig": tag, "shape": "apply-lazy"}))
        body = f'''    lead = {ALL}[:k]
    inf = cfn("iterate")(cfn("inc"), 100)
    del RAN[:]
    r = APPLY(F, *lead, inf)
    tag_, nfix, params, more = r
    got_more = seq_list(cfn("take")(2, more))
    allargs = lead + [100 + i for i in range(8)]
    return list(params) == allargs[:VAR] and got_more == allargs[VAR:VAR + 2] and tag_.name == "variadic"'''
        out.append(Spec(f"sig[{tag}]/apply-infinite-tail", harness("k: int, " + ARGS, body, pre=["0 <= k <= 3"], module_code=mod, warm=[(1, 1, 2, 3, 4, 5)]),
                        timeout=timeout, bound="apply with k leading args and an infinite tail", meta={"sig": tag, "shape": "apply-infinite"}))
    return out


RECUR_SCRIPT = r'''
import importlib
import basilisp.main as _m
_m.init()
from basilisp.lang import compiler as cc, reader as rd, runtime as rt, symbol as sym, vector as vec
ns = rt.Namespace.get_or_create(sym.symbol("verif.c08r")); ns.refer_all(rt.Namespace.get_or_create(rt.CORE_NS_SYM))
sys.modules.setdefault(ns.module.__name__, ns.module)
def ev(src):
    with rt.ns_bindings("verif.c08r"):
        ctx = cc.CompilerContext("<r>"); last = None
        for f in rd.read_str(src): last = cc.compile_and_exec_form(f, ctx, ns)
        return last
LOOP = ev("(fn [n] (loop [i 0 acc 0] (if (< i n) (recur (inc i) (+ acc i)) acc)))")
FNREC = ev("(fn [n acc] (if (pos? n) (recur (dec n) (+ acc n)) acc))")
VARREC = ev("(fn [acc & xs] (if (seq xs) (recur (+ acc (first xs)) (rest xs)) acc))")
APPLY = rt.Var.find(sym.symbol("apply", ns="basilisp.core")).value
n = 1000000
sys.setrecursionlimit(250)
try:
    ok = LOOP(n) == n * (n - 1) // 2 and FNREC(n, 0) == n * (n + 1) // 2 and APPLY(VARREC, 0, vec.vector(range(3000))) == sum(range(3000))
except RecursionError as e:
    print("REPRODUCED: recur grows the Python stack:", e); sys.exit(1)
if not ok:
    print("REPRODUCED: recur computed a wrong value"); sys.exit(1)
print("HOLDS")
'''


def run(rep, tier, seed):
    quick = tier == "quick"
    rep.encoded("src/basilisp/lang/runtime.py", ["apply", "_fn_apply_to", "_unwrap_rest_args", "partial", "_update_signature_for_partial",
                                                  "_trampoline", "_basilisp_fn"], "executed on CrossHair proxies")
    rep.encoded("src/basilisp/lang/compiler/generator.py", ["__multi_arity_dispatch_fn", "__single_arity_fn_to_py_ast", "__multi_arity_fn_to_py_ast"],
                "their output (compiled fn objects) is executed")
    to = 45 if quick else 180
    sigs = SIGNATURES[:8] if quick else SIGNATURES
    specs = []
    from .. import env as _env
    from ..env import PROVED, REFUTED, INCONCLUSIVE, Result
    import time as _t
    t0 = _t.time()
    path = _env.write_replay(rep.prop, "recur-constant-stack", RECUR_SCRIPT)
    ok, line = _env.replay_reproduces(path, timeout=300)
    r = Result("recur/constant-stack/10^6-iterations", INCONCLUSIVE, engine="concrete run (not solver-decided)", secs=_t.time() - t0,
               bound="loop recur and fn recur for 10^6 iterations, variadic recur over 3000 arguments, Python recursion limit 250")
    if ok:
        r.verdict, r.replay, r.detail = REFUTED, path, line
        rep.classify_refutation(r, {"sig": "recur", "shape": "recur"}, line)
    elif "holds" in line:
        r.verdict, r.detail = PROVED, "one concrete run: constant stack"
    else:
        r.detail = line
    rep.add(r)
    for fixed, var in (sigs if not quick else [SIGNATURES[i] for i in (0, 3, 4, 6, 8, 9)]):
        specs += specs_for(fixed, var, to)
    rep.bounds = {"signatures": [f"{f}+&{v}" for f, v in sigs], "argument count": "0..5 (symbolic)", "call shapes": "direct, Var, apply (3 tail kinds), partial"}
    rep.outside = ["signatures are enumerated", "more than 5 arguments", "recur iteration counts are concrete (constant-stack obligation is a run)"]
    rep.trusted += ["crosshair-tool 0.0.110 + z3", "arity selection oracle (6 lines)"]
    rep.extra["explanation"] = "argument count, split point and values are solver variables; the compiled function objects and runtime.apply/partial are real"

    def matcher(spec, cex):
        return {"sig": spec.meta["sig"], "shape": spec.meta["shape"]}

    run_specs(rep, specs, matcher, lambda s, c: f"{s.name}: {c}")
