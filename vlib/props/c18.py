"""C18 — multimethod dispatch depends only on the current methods, preferences, hierarchy (Engine A)."""
from __future__ import annotations

from ..chx.driver import Spec
from ..chx.flow import run_specs
from ..chx.lisp import harness

LEVEL = "other"

MODULE = r'''
import itertools
from basilisp.lang import multifn as mf
DERIVE, UNDERIVE, ISA, PARENTS, ANCESTORS, DESCENDANTS, MAKEH = (cfn(n) for n in
    ("derive", "underive", "isa?", "parents", "ancestors", "descendants", "make-hierarchy"))
ATOM, SWAP = cfn("atom"), cfn("swap!")
POOL = [kw.keyword(n, ns="verif.c18") for n in ("w", "x", "y", "z")]   # iteration order of the method map depends on which
PERMS = list(itertools.permutations(range(4)))                          # keyword plays which role: roles are assigned by a solver-chosen permutation
class World:
    """a multimethod with its own hierarchy + a from-scratch model of its tables"""
    def __init__(self, perm):
        self.K = [POOL[i] for i in PERMS[perm]]
        self.h = ATOM(MAKEH())
        self.m = mf.MultiFunction(sym.symbol("mm"), lambda v: v, kw.keyword("default"), self.h)
        self.methods, self.prefs, self.edges = {}, set(), set()
    # --- model
    def isa(self, a, b):
        if a == b: return True
        seen, todo = set(), [a]
        while todo:
            c = todo.pop()
            for (x, y) in self.edges:
                if x == c and y not in seen:
                    if y == b: return True
                    seen.add(y); todo.append(y)
        return False
    def precedes(self, a, b):
        return (a, b) in self.prefs or self.isa(a, b)
    def expected(self, k):
        cands = [c for c in self.methods if c != "default" and self.isa(k, c)]
        if not cands:
            return ("method", "default") if "default" in self.methods else ("none",)
        best = [c for c in cands if all(self.precedes(c, d) for d in cands)]
        if len(best) == 1:
            return ("method", best[0])
        if len(best) > 1:
            return ("method-any", sorted(best))
        return ("ambiguous",)
    # --- operations on the real object, mirrored in the model; returns False if the real object misbehaves
    def key(self, i):
        return kw.keyword("default") if i == 4 else self.K[i]
    def name(self, i):
        return "default" if i == 4 else i
    def apply(self, op, a, b):
        if op == 0:      # add method for a
            self.m.add_method(self.key(a), (lambda tag: (lambda v: ("called", tag)))(self.name(a)))
            self.methods[self.name(a)] = True
        elif op == 1:    # remove method
            self.m.remove_method(self.key(a)); self.methods.pop(self.name(a), None)
        elif op == 2:    # remove all
            self.m.remove_all_methods(); self.methods.clear()
        elif op == 3:    # prefer a over b
            if a == b or a == 4 or b == 4:
                return True
            try:
                self.m.prefer_method(self.key(a), self.key(b))
                if (b, a) in self.prefs:
                    return False          # contradictory preference accepted
                self.prefs.add((a, b))
            except rt.RuntimeException:
                if (b, a) not in self.prefs:
                    return False          # refused without reason
        elif op == 4:    # derive a from b
            if a == b or a == 4 or b == 4:
                return True
            if self.isa(b, a):              # would close a cycle: must be refused, hierarchy unchanged
                try:
                    SWAP(self.h, DERIVE, self.key(a), self.key(b))
                except Exception:
                    return True
                return False
            # a redundant edge (a already reaches b indirectly) is still a direct parent edge
            SWAP(self.h, DERIVE, self.key(a), self.key(b)); self.edges.add((a, b))
        elif op == 5:    # underive
            if (a, b) in self.edges:
                SWAP(self.h, UNDERIVE, self.key(a), self.key(b)); self.edges.discard((a, b))
        elif op == 6:    # call
            return self.check_call(a)
        return True
    def check_call(self, a):
        if a == 4:
            return True
        want = self.expected(a)
        try:
            got = self.m(self.key(a))
            got = ("method", got[1])
        except NotImplementedError:
            got = ("none",)
        except rt.RuntimeException:
            got = ("ambiguous",)
        if want[0] == "method-any":
            return got[0] == "method" and got[1] in want[1]
        return got == want
    def check_all_calls(self, n=4):
        return all(self.check_call(i) for i in range(n))
    def hierarchy_consistent(self, n=4):
        h = self.h.deref()
        for i in range(n):
            anc = set(ANCESTORS(h, self.K[i]) or ())
            par = set(PARENTS(h, self.K[i]) or ())
            des = set(DESCENDANTS(h, self.K[i]) or ())
            for j in range(n):
                want_isa = self.isa(i, j)
                if bool(ISA(h, self.K[i], self.K[j])) is not want_isa:
                    return False
                if (self.K[j] in anc) is not (want_isa and i != j):
                    return False
                if (self.K[j] in par) is not ((i, j) in self.edges):
                    return False
                if (self.K[j] in des) is not (self.isa(j, i) and i != j):
                    return False
        return True
def DIAG(**k):
    return k
'''


def history_spec(n_ops, timeout, first_op=None, perm=None, first_a=None):
    args = "perm: int, " + ", ".join(f"o{j}: int, a{j}: int, b{j}: int" for j in range(n_ops))
    pre = ["0 <= perm < 24" if perm is None else f"perm == {perm}"]
    for j in range(n_ops):
        # operands: 0..2 are dispatch values, 4 is :default (value 3 is unused in histories)
        pre += [f"0 <= o{j} < 7", f"a{j} in (0, 1, 2, 4)", f"0 <= b{j} < 3"]
    if first_op is not None:
        pre[1] = f"o0 == {first_op}"
    if first_a is not None:
        pre[2] = f"a0 == {first_a}"
    ops = ", ".join(f"(o{j}, a{j}, b{j})" for j in range(n_ops))
    body = f'''    w = World(perm)
    for (o, a, b) in [{ops}]:
        if not w.apply(o, a, b):
            return False
        if not w.check_all_calls():      # a call to every dispatch value after every step
            return False
    return w.hierarchy_consistent()'''
    name = (f"history/len={n_ops}" + (f"/first-op={first_op}" if first_op is not None else "") + (f"/first-key={first_a}" if first_a is not None else "")
            + (f"/perm={perm}" if perm is not None else ""))
    return Spec(name, harness(args, body, pre=pre, module_code=MODULE, warm=[]), timeout=timeout,
                bound=f"{n_ops} operations from add/remove/remove-all/prefer/derive/underive/call over 4 dispatch values + :default; "
                      "24 role permutations (= iteration orders of the method map)", meta={"kind": "history"})


def hierarchy_spec(n_ops, timeout, first):
    """histories of derive/underive only (every ordered pair of 3 tags), methods installed on every tag beforehand:
    after every step each tag is called, and the hierarchy's four views are compared with the edge-set model"""
    o0, a0, b0 = first
    args = ", ".join(f"o{j}: int, a{j}: int, b{j}: int" for j in range(n_ops))
    pre = [f"o0 == {o0}", f"a0 == {a0}", f"b0 == {b0}"]
    for j in range(1, n_ops):
        pre += [f"o{j} in (4, 5)", f"0 <= a{j} < 3", f"0 <= b{j} < 3", f"a{j} != b{j}"]
    ops = ", ".join(f"(o{j}, a{j}, b{j})" for j in range(n_ops))
    body = f'''    w = World(0)
    for k in (0, 1, 2, 4):
        w.apply(0, k, 0)
    for (o, a, b) in [{ops}]:
        if o == 5 and (a, b) not in w.edges:
            SWAP(w.h, UNDERIVE, w.key(a), w.key(b))      # removing an edge that is not there changes nothing
        elif not w.apply(o, a, b):
            return False
    # checked once at the end: every shorter history is the prefix of one padded with no-op underives
    return w.check_all_calls(3) and w.hierarchy_consistent(3)'''
    return Spec(f"hierarchy-history/len={n_ops}/first={'derive' if o0 == 4 else 'underive'}-{a0}-{b0}",
                harness(args, body, pre=pre, module_code=MODULE, warm=[]), timeout=timeout,
                bound=f"{n_ops} derive/underive operations over every ordered pair of 3 tags (redundant edges, refused cycles and "
                      "absent edges included); methods on all 3 tags + :default", meta={"kind": "hierarchy-history"})


SCENARIO = r'''
def build(perm, variant):
    """three unrelated-or-related candidate methods for one dispatch value; `variant` picks how they relate"""
    w = World(perm)
    # value 0 derives from 1, 2, 3
    for p in (1, 2, 3):
        w.apply(4, 0, p)
    for k in (1, 2, 3):
        w.apply(0, k, 0)
    if variant == 0:      # 3 preferred over 1 and 2: a unique dominating candidate exists
        w.apply(3, 3, 1); w.apply(3, 3, 2)
    elif variant == 1:    # 3 derives from 1 and 2: most specific by isa
        pass
    elif variant == 2:    # chain of preferences 1 > 2 > 3 (not transitive): no candidate dominates all
        w.apply(3, 1, 2); w.apply(3, 2, 3)
    return w
'''


VARIANTS = {0: "one-candidate-preferred-over-both", 1: "no-preferences", 2: "non-transitive-preference-chain"}


def dominance_spec(timeout, variant):
    body = '''    w = build(perm, variant)
    return w.check_call(0) and w.check_call(0)'''
    return Spec(f"three-candidates/{VARIANTS[variant]}",
                harness("perm: int, variant: int", body, pre=["0 <= perm < 24", f"variant == {variant}"], module_code=MODULE + SCENARIO, warm=[]),
                timeout=timeout, bound="a value deriving from three dispatch values that all have methods; all 24 iteration orders of the method map",
                meta={"kind": "three-candidates", "variant": VARIANTS[variant]})


def run(rep, tier, seed):
    quick = tier == "quick"
    rep.encoded("src/basilisp/lang/multifn.py", ["MultiFunction.__call__", "MultiFunction.get_method", "MultiFunction._find_and_cache_method",
                                                  "MultiFunction.add_method", "MultiFunction.remove_method", "MultiFunction.remove_all_methods",
                                                  "MultiFunction.prefer_method", "MultiFunction._reset_cache", "MultiFunction._precedes"],
                "executed under CrossHair; history operations and role permutation are solver-chosen")
    rep.encoded_lisp("src/basilisp/core.lpy", ["derive", "underive", "isa?", "parents", "ancestors", "descendants"], "compiled from source")
    to = 90 if quick else 240
    specs = [dominance_spec(to, v) for v in VARIANTS]
    n = 2
    perms = [0, 9, 14, 23]
    # one obligation per (first operation, first key): ~250 paths each; one role permutation (the iteration-order question is
    # the three-candidate scenarios' subject, which cover all 24)
    specs += [history_spec(2, to, first_op=f, perm=perms[1], first_a=a) for f in range(7) for a in (0, 1, 2, 4)]
    if not quick:
        # thorough: the same obligations with a longer budget and under a second role permutation, plus length 3 behind the
        # three operations that change dispatch state (add method, prefer, derive) for one first key
        specs += [history_spec(2, to, first_op=f, perm=perms[3], first_a=a) for f in range(7) for a in (0, 1, 2, 4)]
        specs += [history_spec(3, to * 2, first_op=f, perm=perms[1], first_a=0) for f in (0, 3, 4)]
    hn = 3
    specs += [hierarchy_spec(3, to * 2 if quick else to, (4, a, b)) for a in range(3) for b in range(3) if a != b]
    if not quick:
        specs += [hierarchy_spec(4, to * 2, (4, 0, 1)), hierarchy_spec(4, to * 2, (4, 1, 2))]
    rep.bounds = {"history length": "2 (3 behind add-method / prefer / derive in the thorough tier)", "derive/underive-only history length": "3 (4 for two first edges in the thorough tier)", "dispatch values": "3 namespaced keywords + :default in histories, 4 in the three-candidate scenarios", "iteration orders": "24 role permutations"}
    rep.outside = ["Python classes as dispatch values", "longer histories", "vectors of tags"]
    rep.assumptions += ["keyword hashes are fixed (PYTHONHASHSEED=0), so a role permutation determines the method map's iteration order"]
    rep.trusted += ["crosshair-tool 0.0.110 + z3", "from-scratch resolution oracle in vlib/props/c18.py"]
    rep.extra["explanation"] = "solver-chosen operation codes / keys / role permutation; the real MultiFunction and core hierarchy functions run on each path"

    def matcher(spec, cex):
        return {"kind": spec.meta["kind"], "variant": spec.meta.get("variant", "")}

    run_specs(rep, specs, matcher, lambda s, c: f"{s.name}: {c}")
