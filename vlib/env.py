"""Shared plumbing: scratch workspace, child-process environment, verdict bookkeeping,
evidence files, known findings, plain-interpreter replays."""
from __future__ import annotations

import atexit
import hashlib
import json
import os
import shutil
import subprocess
import sys
import time
from dataclasses import dataclass, field
from typing import Any, Callable, Dict, List, Optional

VERIF = os.path.dirname(os.path.dirname(os.path.abspath(__file__)))
REPO = os.environ.get("VERIF_REPO", "/repo")
SRC = os.path.join(REPO, "src")
PLAIN_PY = "/venv/bin/python"  # the repository's own interpreter: replays run here
# Development aid (tools/try_seeded_wt.sh): VERIF_REPO=<scratch worktree> points every import at that tree's src/ instead of the
# editable install of /repo, and VERIF_EVIDENCE=<dir> keeps such a run's evidence and replays out of /verif/evidence.
# The registered commands never set either.
ALT_REPO = REPO != "/repo"
EVIDENCE_DIR = os.environ.get("VERIF_EVIDENCE") or os.path.join(VERIF, "evidence")


def plain_pythonpath() -> str:
    return SRC if ALT_REPO else ""
VENV_PY = os.path.join(VERIF, ".venv", "bin", "python")

PROVED = "PROVED-IN-BOUND"
REFUTED = "REFUTED"
INCONCLUSIVE = "INCONCLUSIVE"

EXIT_OK, EXIT_VIOLATION, EXIT_HARNESS = 0, 1, 3


class HarnessError(Exception):
    """Something in the verification machinery itself is broken (exit 3, never 0 or 1)."""


# ----------------------------------------------------------------------------- workspace

_SCRATCH: Optional[str] = None


def scratch() -> str:
    """Per-run scratch directory (pycache prefix, generated harness modules, temp replays)."""
    global _SCRATCH
    if _SCRATCH is None:
        inherited = os.environ.get("VERIF_SCRATCH")
        if inherited and os.path.isdir(inherited):
            _SCRATCH = inherited
        else:
            _SCRATCH = f"/var/tmp/verif-{os.getpid()}"
            os.makedirs(_SCRATCH, exist_ok=True)
            os.environ["VERIF_SCRATCH"] = _SCRATCH
            atexit.register(shutil.rmtree, _SCRATCH, True)
    return _SCRATCH


def child_env(extra: Optional[Dict[str, str]] = None, hashseed: Optional[str] = None) -> Dict[str, str]:
    e = dict(os.environ)
    e.pop("PYTHONDONTWRITEBYTECODE", None)
    e["PYTHONPYCACHEPREFIX"] = os.path.join(scratch(), "pycache")
    e["PYTHONPATH"] = VERIF + (os.pathsep + e["PYTHONPATH"] if e.get("PYTHONPATH") else "")
    if ALT_REPO and SRC not in e["PYTHONPATH"].split(os.pathsep):
        e["PYTHONPATH"] = SRC + os.pathsep + e["PYTHONPATH"]
    e["VERIF_SCRATCH"] = scratch()
    e.pop("BASILISP_USE_DEV_LOGGER", None)
    if hashseed is not None:
        e["PYTHONHASHSEED"] = hashseed
    if extra:
        e.update(extra)
    return e


def setup_process_env() -> None:
    """Make *this* process (and what it forks) use the per-run bytecode cache."""
    os.environ.pop("PYTHONDONTWRITEBYTECODE", None)
    sys.dont_write_bytecode = False
    sys.pycache_prefix = os.path.join(scratch(), "pycache")
    os.environ["PYTHONPYCACHEPREFIX"] = sys.pycache_prefix


def warm_cache() -> float:
    """Compile the bundled Lisp namespaces from /repo's *current* sources once, into the
    per-run cache, so worker processes start in well under a second."""
    t = time.time()
    r = subprocess.run(
        [PLAIN_PY, "-c", "import basilisp.main as m; m.init(); import importlib; importlib.import_module('basilisp.core')"],
        env=child_env(), capture_output=True, text=True)
    if r.returncode != 0:
        raise HarnessError("cannot import basilisp.core from /repo: " + r.stderr[-2000:])
    return time.time() - t


def build_native() -> Dict[str, Any]:
    """Rebuild the Rust native module from /repo/rust into scratch (offline) and, if it differs from the
    installed src/basilisp/_lang.abi3.so, make harness workers and replays load the fresh build."""
    info: Dict[str, Any] = {"rebuilt": False}
    t = time.time()
    target = os.path.join(scratch(), "cargo")
    e = dict(os.environ, CARGO_TARGET_DIR=target, CARGO_NET_OFFLINE="true")
    try:
        r = subprocess.run(["cargo", "build", "--offline", "--release"], cwd=os.path.join(REPO, "rust"), env=e,
                           capture_output=True, text=True, timeout=900)
    except Exception as ex:  # cargo missing etc.
        info["error"] = repr(ex)
        return info
    info["cargo_s"] = round(time.time() - t, 1)
    so = os.path.join(target, "release", "libbasilisp_native.so")
    if r.returncode != 0 or not os.path.exists(so):
        info["error"] = r.stderr[-500:]
        return info
    info["rebuilt"] = True
    installed = os.path.join(SRC, "basilisp", "_lang.abi3.so")
    same = os.path.exists(installed) and open(installed, "rb").read() == open(so, "rb").read()
    info["installed_so_matches_sources"] = same
    if not same:
        os.environ["VERIF_NATIVE_SO"] = so
        info["using"] = "fresh build from /repo/rust"
    else:
        info["using"] = "installed _lang.abi3.so (identical to a fresh build)"
    return info


def src_sha(path: str, qualname: Optional[str] = None) -> str:
    with open(path, "rb") as f:
        data = f.read()
    return hashlib.sha1(data).hexdigest()[:12]


# ----------------------------------------------------------------------------- results


@dataclass
class Result:
    name: str
    verdict: str  # PROVED / REFUTED / INCONCLUSIVE
    bound: str = ""
    detail: str = ""
    engine: str = ""
    witness: Any = None  # normalised counterexample (JSON-able) when REFUTED
    replay: Optional[str] = None  # path of the replay script when REFUTED and reproduced
    reproduced: Optional[bool] = None
    finding: Optional[str] = None  # id of the known finding it matched
    secs: float = 0.0
    stats: Dict[str, Any] = field(default_factory=dict)

    def brief(self) -> Dict[str, Any]:
        d = {"obligation": self.name, "verdict": self.verdict, "engine": self.engine, "bound": self.bound,
             "secs": round(self.secs, 2)}
        if self.detail:
            d["detail"] = self.detail[:400]
        if self.witness is not None:
            d["witness"] = self.witness
        if self.finding:
            d["known_finding"] = self.finding
        if self.stats:
            d["stats"] = self.stats
        return d


# ----------------------------------------------------------------------------- known findings


def load_known(prop: str) -> List[Dict[str, Any]]:
    p = os.path.join(VERIF, "known_findings.jsonl")
    out = []
    if os.path.exists(p):
        for line in open(p):
            line = line.strip()
            if not line or line.startswith("#") or line.startswith("fixed:"):
                continue
            d = json.loads(line)
            if d.get("property") == prop and d.get("status", "known") == "known":
                out.append(d)
    return out


def match_known(known: List[Dict[str, Any]], matcher: Dict[str, Any]) -> Optional[Dict[str, Any]]:
    """A refutation is a known finding iff its normalised witness equals a listed matcher
    (every key of the listed matcher present and equal)."""
    for k in known:
        m = k.get("matcher", {})
        if m and all(matcher.get(a) == b for a, b in m.items()):
            return k
    return None


# ----------------------------------------------------------------------------- replay


def replay_dir() -> str:
    d = os.path.join(EVIDENCE_DIR, "replays")
    os.makedirs(d, exist_ok=True)
    return d


def run_plain(script_path: str, timeout: float = 120, hashseed: Optional[str] = None,
              args: Optional[List[str]] = None) -> subprocess.CompletedProcess:
    """Run a replay script in the repository's own interpreter: no CrossHair, no shims."""
    env = child_env(hashseed=hashseed)
    env["PYTHONPATH"] = plain_pythonpath()  # replays see only /repo (editable install) and the stdlib
    try:
        return subprocess.run([PLAIN_PY, script_path] + (args or []), env=env, capture_output=True, text=True,
                              timeout=timeout)
    except subprocess.TimeoutExpired as e:
        return subprocess.CompletedProcess(e.cmd, 124, (e.stdout or b"").decode() if isinstance(e.stdout, bytes) else (e.stdout or ""),
                                           "TIMEOUT")


REPLAY_PRELUDE = '''\
# Replay script written by /verif: runs in /venv/bin/python against /repo, no CrossHair, no shims.
# Prints "REPRODUCED: ..." and exits 1 when the real code shows the failure, "HOLDS" / exit 0 otherwise.
import sys
'''


def write_replay(prop: str, name: str, body: str) -> str:
    safe = "".join(c if c.isalnum() or c in "-_." else "_" for c in name)[:80]
    path = os.path.join(replay_dir(), f"{prop}_{safe}.py")
    with open(path, "w") as f:
        f.write(REPLAY_PRELUDE + body)
    return path


def replay_reproduces(path: str, timeout: float = 120, hashseed: Optional[str] = None) -> (bool, str):
    r = run_plain(path, timeout=timeout, hashseed=hashseed)
    out = (r.stdout or "") + (r.stderr or "")
    if r.returncode == 1 and "REPRODUCED" in r.stdout:
        line = [l for l in r.stdout.splitlines() if "REPRODUCED" in l][0]
        return True, line
    if r.returncode == 0 and "HOLDS" in r.stdout:
        return False, "holds on real code"
    if r.returncode == 124:
        return False, "replay timed out"
    return False, "replay error: " + out[-600:]


# ----------------------------------------------------------------------------- evidence + exit


class Report:
    """Collects obligation results for one property run and turns them into the evidence file,
    the stdout lines of the interface and the exit code."""

    def __init__(self, prop: str, tier: str, level: str, seed: int):
        self.prop, self.tier, self.level, self.seed = prop, tier, level, seed
        self.t0 = time.time()
        self.results: List[Result] = []
        self.functions: List[Dict[str, str]] = []
        self.assumptions: List[str] = []
        self.trusted: List[str] = []
        self.bounds: Dict[str, Any] = {}
        self.outside: List[str] = []
        self.extra: Dict[str, Any] = {}
        self.solver_s = 0.0
        self.queries = 0
        self.known = load_known(prop)
        self.known_hit: Dict[str, str] = {}
        self.violations: List[Result] = []
        self.nonrepro = 0

    # -- encoded-function bookkeeping
    def encoded(self, relpath: str, qualnames: List[str], how: str) -> None:
        from .pysym.loader import source_of

        for q in qualnames:
            try:
                text = source_of(relpath, q)
                sha = hashlib.sha1(text.encode()).hexdigest()[:12]
            except Exception as e:  # function vanished: the check must notice
                raise HarnessError(f"cannot find {q} in {relpath}: {e}")
            self.functions.append({"file": relpath, "qualname": q, "sha1": sha, "how": how})

    def encoded_lisp(self, relpath: str, names: List[str], how: str) -> None:
        path = os.path.join(REPO, relpath)
        sha = src_sha(path)
        for n in names:
            self.functions.append({"file": relpath, "qualname": n, "sha1_file": sha, "how": how})

    def add(self, r: Result) -> None:
        self.results.append(r)

    def classify_refutation(self, r: Result, matcher: Dict[str, Any], what: str) -> None:
        """Called for a REFUTED result whose replay reproduced on the real code."""
        k = match_known(self.known, matcher)
        if k is not None:
            r.finding = k["id"]
            self.known_hit[k["id"]] = k.get("what", what)
        else:
            self.violations.append(r)

    def finish(self) -> int:
        wall = time.time() - self.t0
        counts = {PROVED: 0, REFUTED: 0, INCONCLUSIVE: 0}
        for r in self.results:
            counts[r.verdict] = counts.get(r.verdict, 0) + 1
        proved = [r for r in self.results if r.verdict == PROVED]
        refuted = [r for r in self.results if r.verdict == REFUTED]
        inconcl = [r for r in self.results if r.verdict == INCONCLUSIVE]
        samples = [r.brief() for r in (refuted[:6] + proved[:6] + inconcl[:4])]
        distinct = len({r.name for r in self.results if r.verdict in (PROVED, REFUTED)})
        cov: Dict[str, Any] = {
            "explanation": self.extra.pop("explanation", ""),
            "obligations": len(self.results),
            "discharged": len(proved),
            "proved_in_bound": len(proved),
            "refuted": len(refuted),
            "refuted_known_findings": sum(1 for r in refuted if r.finding),
            "refuted_new_violations": len(self.violations),
            "inconclusive": len(inconcl),
            "inconclusive_obligations": [{"obligation": r.name, "why": r.detail[:200]} for r in inconcl[:40]],
            "nonreproducing_counterexamples": self.nonrepro,
            "evaluations": len(self.results),
            "distinct_nontrivial": distinct,
            "rule": "one evaluation = one solver-decided obligation (a harness or formula over symbolic inputs); "
                    "distinct_nontrivial counts obligations with distinct names that ended PROVED-IN-BOUND or REFUTED "
                    "(inconclusive ones are not counted); every PROVED obligation had its reachability twin refuted",
            "samples": samples,
            "functions_encoded": self.functions,
            "bounds": self.bounds,
            "outside_bounds": self.outside,
            "solver_queries": self.queries,
            "solver_wall_s": round(self.solver_s, 2),
            "trusted_base": self.trusted,
            "checker_cmd": f"./check {self.prop} --tier {self.tier}",
            "exhaustive": False,
        }
        if self.level == "translation_validation":
            cov["programs"] = self.extra.pop("programs", len(self.results))
            cov["disagreements_checked"] = len(refuted) + self.nonrepro
        if self.level == "model_checking":
            cov["traces_validated_against_impl"] = self.extra.pop("traces_validated_against_impl", 0)
            if "states" in self.extra:
                cov["states"] = self.extra.pop("states")
                cov["transitions"] = self.extra.pop("transitions")
        cov.update(self.extra)
        ev = {
            "property_id": self.prop, "tier": self.tier, "seed": self.seed, "level": self.level,
            "coverage": cov, "assumptions": self.assumptions, "wall_s": round(wall, 2),
            "violations": len(self.violations),
        }
        os.makedirs(EVIDENCE_DIR, exist_ok=True)
        path = os.path.join(EVIDENCE_DIR, f"{self.prop}.json")
        with open(path + ".tmp", "w") as f:
            json.dump(ev, f, indent=1, default=str)
        os.replace(path + ".tmp", path)
        print(f"[{self.prop}] tier={self.tier} obligations={len(self.results)} proved={len(proved)} "
              f"refuted={len(refuted)} (known={cov['refuted_known_findings']}, new={len(self.violations)}) "
              f"inconclusive={len(inconcl)} nonrepro={self.nonrepro} wall={wall:.1f}s solver={self.solver_s:.1f}s")
        if os.environ.get("VERIF_VERBOSE"):
            for r in self.results:
                print(f"  {r.verdict:16s} {r.secs:6.1f}s {r.name}  {r.detail[:150]}")
        for fid, what in sorted(self.known_hit.items()):
            print(f"KNOWN-FINDING: property={self.prop} {fid}: {what}")
        for r in self.violations:
            print(f"VIOLATION property={self.prop} replay={r.replay}")
            print(f"  obligation={r.name} witness={json.dumps(r.witness, default=str)[:300]}")
        if self.violations:
            return EXIT_VIOLATION
        if not proved and not refuted:
            print(f"[{self.prop}] HARNESS: no obligation was decided")
            return EXIT_HARNESS
        return EXIT_OK


def pmap(fn: Callable, items: List[Any], procs: int = 16, initializer=None, initargs=()) -> List[Any]:
    import multiprocessing as mp

    if not items:
        return []
    ctx = mp.get_context("fork")
    with ctx.Pool(min(procs, len(items)), initializer=initializer, initargs=initargs) as pool:
        return pool.map(fn, items, chunksize=1)
