"""Run one PySym obligation: explore every path of a scenario over the real ASTs and ask z3, per
path, whether the property can be false.  Returns a verdict dict."""
from __future__ import annotations

import time
import traceback
from typing import Any, Callable, Dict, Optional

import z3

from .interp import (ExcVal, Interp, Obj, Path, SBool, SInt, SReal, SStr, SVal, Unsupported, UnwindingExceeded,
                     explore)


def model_value(model, v):
    """concrete Python value of a symbolic value under a z3 model"""
    if isinstance(v, SInt):
        return model.eval(v.t, model_completion=True).as_long()
    if isinstance(v, SBool):
        return z3.is_true(model.eval(v.t, model_completion=True))
    if isinstance(v, SStr):
        return model.eval(v.t, model_completion=True).as_string()
    if isinstance(v, SReal):
        r = model.eval(v.t, model_completion=True)
        return f"{r.numerator_as_long()}/{r.denominator_as_long()}"
    if isinstance(v, SVal):
        return str(model.eval(v.t, model_completion=True))
    if hasattr(v, "model_str"):
        return v.model_str(model)
    if isinstance(v, Obj):
        return {"__class__": v.cls.name, **{k: model_value(model, x) for k, x in v.fields.items()}}
    if isinstance(v, (tuple, list)):
        return [model_value(model, x) for x in v]
    if isinstance(v, dict):
        return {str(k): model_value(model, x) for k, x in v.items()}
    if isinstance(v, ExcVal):
        return f"{v.cls}"
    if v is NotImplemented:
        return "NotImplemented"
    if v is None or isinstance(v, (bool, int, str)):
        return v
    return repr(v)


def z3_unescape(s: str) -> str:
    """z3 prints non-ASCII string characters as \\u{XXXX}"""
    import re

    return re.sub(r"\\u\{([0-9a-fA-F]+)\}", lambda m: chr(int(m.group(1), 16)), s)


def check(scenario: Callable[[Interp, Path], Any], mk_interp: Callable[[], Interp],
          allowed_exc=(), max_paths: int = 5000, timeout_s: float = 300.0, vacuity: bool = True) -> Dict[str, Any]:
    """scenario(I, path) builds symbolic inputs (registering them in path.ghost['inputs']), runs the
    real code through I, and returns the property value (bool / SBool).  Verdict:
      proved   -- every feasible path: property cannot be false; >=1 path reached the end
      refuted  -- a model falsifying the property (inputs decoded from the model)
      unknown  -- Unsupported construct / solver unknown / budget / unwinding bound hit
    """
    t0 = time.time()
    stats: Dict[str, Any] = {}
    I = mk_interp()
    reached = 0
    out: Dict[str, Any] = {"status": "unknown", "message": "", "cex": None}

    def run(path: Path):
        I.path = path
        I.depth = 0
        return scenario(I, path)

    try:
        for path, (kind, val) in explore(run, max_paths=max_paths, timeout_s=timeout_s, stats=stats):
            bad = None
            if kind == "exc":
                if val.cls in allowed_exc:
                    reached += 1
                    continue
                bad = z3.BoolVal(True)
                why = f"raises {val.cls}{tuple(map(str, val.args))[:2]}"
            else:
                reached += 1
                if val is True:
                    continue
                if val is False:
                    bad = z3.BoolVal(True)
                elif isinstance(val, SBool):
                    bad = z3.Not(val.t)
                else:
                    raise Unsupported(f"scenario returned non-boolean {val!r}")
                why = "property false"
            s = path.solver
            s.push()
            s.add(bad)
            t = time.time()
            r = s.check()
            stats["queries"] = stats.get("queries", 0) + 1
            stats["solver_s"] = stats.get("solver_s", 0.0) + time.time() - t
            if r == z3.sat:
                # prefer a readable witness: try again with the scenario's optional "nice" constraints
                nice = path.ghost.get("nice", [])
                if nice:
                    m0 = s.model()
                    s.push()
                    s.add(*nice)
                    s.set("timeout", 4000)
                    m = s.model() if s.check() == z3.sat else m0
                    s.set("timeout", 60000)
                    s.pop()
                else:
                    m = s.model()
                inputs = path.ghost.get("inputs", {})
                out.update(status="refuted", message=why,
                           cex={k: model_value(m, v) for k, v in inputs.items()},
                           extra={k: model_value(m, v) for k, v in path.ghost.get("observe", {}).items()})
                s.pop()
                break
            s.pop()
            if r == z3.unknown:
                raise Unsupported("solver answered unknown on the property query")
        else:
            if reached == 0 and vacuity:
                out.update(status="unknown", message="vacuous: no path reached the end of the scenario")
            else:
                out.update(status="proved")
    except UnwindingExceeded as e:
        out.update(status="unknown", message=f"unwinding assertion failed: {e}")
    except Unsupported as e:
        out.update(status="unknown", message=f"unsupported: {e}")
    except Exception as e:  # a bug in PySym itself must never read as PROVED
        out.update(status="error", message="".join(traceback.format_exception_only(type(e), e)) + traceback.format_exc()[-1500:])
    out["stats"] = {"paths": stats.get("paths", 0), "queries": stats.get("queries", 0),
                    "solver_s": round(stats.get("solver_s", 0.0), 3), "reached_end": reached}
    out["secs"] = time.time() - t0
    return out


_JOBS = []


def _run_job(i):
    return _JOBS[i]()


def run_parallel(thunks, procs: int = 16):
    """run independent obligation thunks (closures) in forked workers; results in order"""
    import multiprocessing as mp

    global _JOBS
    _JOBS = list(thunks)
    if len(_JOBS) <= 1 or procs <= 1:
        return [t() for t in _JOBS]
    ctx = mp.get_context("fork")
    with ctx.Pool(min(procs, len(_JOBS))) as pool:
        return pool.map(_run_job, range(len(_JOBS)), chunksize=1)
