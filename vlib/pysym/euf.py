"""Translation validation of (before, after) Python-AST pairs produced by the optimizer.

The two trees are walked in lock step.  Statement-level differences must be one of the
rewrites the property allows (checked structurally, with side conditions decided by purity
analysis); every pair of differing *expressions* becomes an SMT query over uninterpreted
functions: each evaluation step (call, attribute load, subscript, operator, comparison) is an
uninterpreted function of its operand values **and the current world token**, returning a
value and a new world, so that the order and number of effects are part of the term.  Functions
of the `operator` module are given their documented meaning ("operator.add(a, b) is a + b")
from the table below, which is taken from the Python documentation, not from the optimizer.
`sat` = z3 cannot identify the two behaviours = a candidate difference, to be replayed.
"""
from __future__ import annotations

import ast
from typing import Any, Dict, List, Optional, Tuple

import z3

Val = z3.DeclareSort("PyObj")
World = z3.DeclareSort("World")

# documented meaning of operator-module functions (Python library reference, "Mapping Operators to Functions")
BINOPS = {"add": ast.Add, "and_": ast.BitAnd, "floordiv": ast.FloorDiv, "lshift": ast.LShift, "mod": ast.Mod, "mul": ast.Mult,
          "matmul": ast.MatMult, "or_": ast.BitOr, "pow": ast.Pow, "rshift": ast.RShift, "sub": ast.Sub, "truediv": ast.Div,
          "xor": ast.BitXor}
UNOPS = {"not_": ast.Not, "inv": ast.Invert, "invert": ast.Invert, "neg": ast.USub, "pos": ast.UAdd}
CMPOPS = {"lt": ast.Lt, "le": ast.LtE, "eq": ast.Eq, "ne": ast.NotEq, "gt": ast.Gt, "ge": ast.GtE, "is_": ast.Is, "is_not": ast.IsNot}


class Terms:
    def __init__(self, operator_alias: str):
        self.alias = operator_alias
        self.names: Dict[str, Any] = {}
        self.consts: Dict[Any, Any] = {}
        self.fns: Dict[Tuple[str, int], Any] = {}
        self.axioms: List[Any] = []
        self.w0 = z3.Const("w0", World)

    def name(self, n: str):
        if n not in self.names:
            self.names[n] = z3.Const("name_" + n, Val)
        return self.names[n]

    def const(self, v):
        key = (type(v).__name__, repr(v))
        if key not in self.consts:
            c = z3.Const(f"const_{len(self.consts)}_{type(v).__name__}", Val)
            self.consts[key] = c
        return self.consts[key]

    def fn(self, label: str, nargs: int, effect: bool = True):
        """uninterpreted step: (world, args...) -> value, and (world, args...) -> world"""
        key = (label, nargs)
        if key not in self.fns:
            dom = [World] + [Val] * nargs
            self.fns[key] = (z3.Function("v_" + label, *dom, Val), z3.Function("w_" + label, *dom, World))
        return self.fns[key]

    def step(self, label: str, w, args: List[Any]):
        fv, fw = self.fn(label, len(args))
        return fv(w, *args), fw(w, *args)

    # ---- expression evaluation in Python's order: returns (value term, world term)
    def ev(self, e: ast.AST, w):
        if isinstance(e, ast.Constant):
            return self.const(e.value), w
        if isinstance(e, ast.Name):
            return self.name(e.id), w  # plain name loads are effect-free (the property allows dropping them)
        if isinstance(e, ast.Attribute):
            v, w = self.ev(e.value, w)
            return self.step("getattr_" + e.attr, w, [v])
        if isinstance(e, ast.Call):
            op = self.operator_fn(e)
            if op is not None and not e.keywords and not any(isinstance(a, ast.Starred) for a in e.args):
                return self.ev_operator(op, e.args, w)
            f, w = self.ev(e.func, w)
            args = []
            for a in e.args:
                if isinstance(a, ast.Starred):
                    v, w = self.ev(a.value, w)
                    v, w = self.step("star", w, [v])
                else:
                    v, w = self.ev(a, w)
                args.append(v)
            for k in e.keywords:
                v, w = self.ev(k.value, w)
                v, w = self.step("kw_" + (k.arg or "**"), w, [v])
                args.append(v)
            return self.step(f"call{len(args)}", w, [f] + args)
        if isinstance(e, ast.BinOp):
            l, w = self.ev(e.left, w)
            r, w = self.ev(e.right, w)
            return self.step("binop_" + type(e.op).__name__, w, [l, r])
        if isinstance(e, ast.UnaryOp):
            v, w = self.ev(e.operand, w)
            return self.step("unop_" + type(e.op).__name__, w, [v])
        if isinstance(e, ast.Compare):
            left, w = self.ev(e.left, w)
            if len(e.ops) == 1:
                right, w = self.ev(e.comparators[0], w)
                return self.cmp(e.ops[0], left, right, w)
            # chained comparison: conservative opaque step over all operands
            vals = [left]
            for c in e.comparators:
                v, w = self.ev(c, w)
                vals.append(v)
            return self.step("chain_" + "_".join(type(o).__name__ for o in e.ops), w, vals)
        if isinstance(e, ast.BoolOp):
            # short-circuit: each operand's effects happen only if reached; encode as opaque conditional chain
            vals = []
            for x in e.values:
                v, w2 = self.ev(x, w)
                fv, fw = self.fn("sc_" + type(e.op).__name__, 2)
                prev = vals[-1] if vals else self.const(("start", type(e.op).__name__))
                w = z3.If(self.reach(type(e.op).__name__, prev), w2, w) if vals else w2
                vals.append(v)
            return self.step("boolop_" + type(e.op).__name__, w, vals)
        if isinstance(e, ast.Subscript):
            v, w = self.ev(e.value, w)
            i, w = self.ev(e.slice, w)
            return self.step("getitem", w, [v, i])
        if isinstance(e, (ast.Tuple, ast.List, ast.Set)):
            vals = []
            for x in e.elts:
                v, w = self.ev(x, w)
                vals.append(v)
            return self.step("mk_" + type(e).__name__ + str(len(vals)), w, vals)
        if isinstance(e, ast.Dict):
            vals = []
            for k, x in zip(e.keys, e.values):
                if k is not None:
                    v, w = self.ev(k, w)
                    vals.append(v)
                v, w = self.ev(x, w)
                vals.append(v)
            return self.step("mk_Dict" + str(len(vals)), w, vals)
        if isinstance(e, ast.IfExp):
            t, w = self.ev(e.test, w)
            a, wa = self.ev(e.body, w)
            b, wb = self.ev(e.orelse, w)
            c = self.truthy(t)
            return z3.If(c, a, b), z3.If(c, wa, wb)
        if isinstance(e, ast.Starred):
            v, w = self.ev(e.value, w)
            return self.step("star", w, [v])
        if isinstance(e, (ast.Lambda, ast.ListComp, ast.GeneratorExp, ast.DictComp, ast.SetComp, ast.JoinedStr, ast.FormattedValue,
                          ast.Await, ast.Yield, ast.YieldFrom, ast.NamedExpr, ast.Slice)):
            # opaque: identified by its source text (the optimizer's rewrites inside are validated when the walk descends)
            return self.step("opaque_" + str(abs(hash(ast.dump(e)))), w, [])
        return self.step("opaque_" + type(e).__name__ + str(abs(hash(ast.dump(e)))), w, [])

    def truthy(self, v):
        f = self.fns.setdefault(("truthy", 1), z3.Function("truthy", Val, z3.BoolSort()))
        return f(v)

    def reach(self, op, prev):
        t = self.truthy(prev)
        return t if op == "And" else z3.Not(t)

    def boolval(self, b):
        f = self.fns.setdefault(("boolval", 1), z3.Function("boolval", z3.BoolSort(), Val))
        return f(b)

    def cmp(self, op, left, right, w):
        if isinstance(op, ast.Is):
            return self.boolval(left == right), w  # identity: pure, interpreted
        if isinstance(op, ast.IsNot):
            return self.boolval(left != right), w
        if isinstance(op, ast.In):
            return self.step("contains", w, [right, left])  # `a in b` calls b.__contains__(a)
        if isinstance(op, ast.NotIn):
            v, w = self.step("contains", w, [right, left])
            return self.step("unop_Not", w, [v])
        return self.step("cmp_" + type(op).__name__, w, [left, right])

    def operator_fn(self, e: ast.Call) -> Optional[str]:
        f = e.func
        if isinstance(f, ast.Attribute) and isinstance(f.value, ast.Name) and f.value.id == self.alias:
            return f.attr
        return None

    def ev_operator(self, name: str, argnodes, w):
        """documented meaning of operator.<name>(*args): the arguments are evaluated left to right, then
        the corresponding operator is applied to them"""
        args = []
        for a in argnodes:
            v, w = self.ev(a, w)
            args.append(v)
        if name in BINOPS and len(args) == 2:
            return self.step("binop_" + BINOPS[name].__name__, w, args)
        if name in UNOPS and len(args) == 1:
            return self.step("unop_" + UNOPS[name].__name__, w, args)
        if name in CMPOPS and len(args) == 2:
            return self.cmp(CMPOPS[name](), args[0], args[1], w)
        if name == "contains" and len(args) == 2:
            return self.step("contains", w, [args[0], args[1]])  # operator.contains(a, b) is `b in a`
        if name == "getitem" and len(args) == 2:
            return self.step("getitem", w, args)
        if name == "delitem" and len(args) == 2:
            return self.step("delitem", w, args)
        f, w = self.step("getattr_" + name, w, [self.name(self.alias)])
        return self.step(f"call{len(args)}", w, [f] + args)


def is_pure(e: ast.AST) -> bool:
    """evaluation has no effect and cannot raise: names, constants, `is` comparisons, not/and/or of those"""
    if isinstance(e, (ast.Name, ast.Constant)):
        return True
    if isinstance(e, ast.Compare):
        return all(isinstance(o, (ast.Is, ast.IsNot)) for o in e.ops) and is_pure(e.left) and all(is_pure(c) for c in e.comparators)
    if isinstance(e, ast.BoolOp):
        return all(is_pure(v) for v in e.values)
    if isinstance(e, ast.UnaryOp) and isinstance(e.op, ast.Not):
        return is_pure(e.operand)
    return False


class Validator:
    """walks a (before, after) pair; collects obligations"""

    def __init__(self, operator_alias: str):
        self.alias = operator_alias
        self.obligations: List[Dict[str, Any]] = []
        self.queries = 0
        self.solver_s = 0.0

    @staticmethod
    def _src(node):
        if node is None:
            return None
        try:
            return ast.unparse(ast.fix_missing_locations(node))[:300]
        except Exception:
            return ast.dump(node)[:300]

    def ob(self, kind: str, ok: Optional[bool], detail: str, before=None, after=None, model=None):
        self.obligations.append({"kind": kind, "ok": ok, "detail": detail, "before": self._src(before),
                                 "after": self._src(after), "model": model})

    # ---- expressions
    def expr_pair(self, b: ast.AST, a: ast.AST, ctx: str):
        if ast.dump(b) == ast.dump(a):
            return
        import time
        stray = [n for n in ast.walk(a) if isinstance(n, ast.stmt)]
        if stray and not any(isinstance(n, ast.stmt) for n in ast.walk(b)):
            # Python's grammar (ASDL) has no statement inside an expression: compile() rejects such a tree with a
            # TypeError, so code that compiled before the pass no longer compiles after it
            self.ob("invalid-ast", False, f"{ctx}: the pass put a statement node ({type(stray[0]).__name__}) in an expression position", b, a)
            return
        T = Terms(self.alias)
        vb, wb = T.ev(b, T.w0)
        va, wa = T.ev(a, T.w0)
        s = z3.Solver()
        s.set("timeout", 20000)
        s.add(z3.Or(vb != va, wb != wa))
        t = time.time()
        r = s.check()
        self.solver_s += time.time() - t
        self.queries += 1
        if r == z3.unsat:
            self.ob("expr-rewrite", True, f"{ctx}: EUF-equivalent (same value, same effects in the same order)", b, a)
        elif r == z3.sat:
            self.ob("expr-rewrite", False, f"{ctx}: z3 model distinguishes value or effect order", b, a, model=str(s.model())[:400])
        else:
            self.ob("expr-rewrite", None, f"{ctx}: solver unknown", b, a)

    # ---- statements
    def stmts(self, bs: List[ast.stmt], as_: List[ast.stmt], declared_globals: Optional[set] = None, ctx: str = "body"):
        declared_globals = declared_globals if declared_globals is not None else set()
        # `global` is a declaration with function-wide effect, not a statement with a position: the declared sets are compared
        # per function scope in globals_pair(); here the declarations are skipped
        bs = [x for x in bs if not isinstance(x, ast.Global)]
        as_ = [x for x in as_ if not isinstance(x, ast.Global)]
        i = j = 0
        terminated = False
        while i < len(bs):
            b = bs[i]
            a = as_[j] if j < len(as_) else None
            if terminated:
                self.ob("dead-code", True, f"{ctx}: statement after return/raise/break/continue dropped", b, None)
                i += 1
                continue
            if isinstance(b, ast.Try) and not b.handlers and self._empties(b.finalbody) and not isinstance(a, ast.Try):
                # a try with no handlers whose finally clause does nothing is its body
                self.ob("try-with-empty-finally", True, f"{ctx}: try without handlers and with an effect-free finally replaced by its body", b, None)
                bs = list(bs[:i]) + list(b.body) + list(bs[i + 1:])
                continue
            # allowed drops -------------------------------------------------
            if isinstance(b, ast.Expr) and isinstance(b.value, (ast.Constant, ast.Name)) and not (
                    a is not None and ast.dump(a) == ast.dump(b)):
                self.ob("drop-bare-constant-or-name", True, f"{ctx}", b, None)
                i += 1
                continue
            if isinstance(b, ast.If) and (a is None or not isinstance(a, ast.If) or not self._same_if(b, a)):
                # maybe removed entirely: both branches empty after optimisation
                if self._empties(b.body) and self._empties(b.orelse):
                    if isinstance(a, ast.Expr) and not is_pure(b.test):
                        # the if is gone but its test is still evaluated, as a statement
                        self.ob("drop-empty-if", True, f"{ctx}: both branches empty, the test's evaluation is kept", b, a)
                        self.expr_pair(b.test, a.value, ctx + "/kept-test")
                        i += 1
                        j += 1
                        continue
                    if is_pure(b.test):
                        self.ob("drop-empty-if", True, f"{ctx}: both branches empty, test is effect-free", b, None)
                    else:
                        self.ob("drop-empty-if", False, f"{ctx}: both branches empty but the test's evaluation was dropped", b, None)
                    i += 1
                    continue
            if a is None:
                self.ob("statement-lost", False, f"{ctx}: statement has no counterpart", b, None)
                i += 1
                continue
            self.stmt_pair(b, a, declared_globals, ctx)
            if isinstance(b, (ast.Return, ast.Raise, ast.Break, ast.Continue)):
                terminated = True
            i += 1
            j += 1
        if j < len(as_):
            for a in as_[j:]:
                self.ob("statement-added", False, f"{ctx}: optimizer output has an extra statement", None, a)

    def _empties(self, body: List[ast.stmt]) -> bool:
        """would this block be empty after the allowed drops?"""
        for s in body:
            if isinstance(s, ast.Expr) and isinstance(s.value, (ast.Constant, ast.Name)):
                continue
            if isinstance(s, ast.If) and self._empties(s.body) and self._empties(s.orelse) and is_pure(s.test):
                continue
            if isinstance(s, ast.Pass):
                return False
            return False
        return True

    def _same_if(self, b: ast.If, a: ast.If) -> bool:
        return True

    def stmt_pair(self, b: ast.stmt, a: ast.stmt, g: set, ctx: str):
        if ast.dump(b) == ast.dump(a):
            return
        tb, ta = type(b), type(a)
        if tb is ast.If and ta is ast.If:
            if self._empties(b.body) and not self._empties(b.orelse) and not a.orelse:
                # `if t: <nothing> else: X`  ->  `if not t: X`
                neg = ast.UnaryOp(op=ast.Not(), operand=b.test)
                self.expr_pair(neg, a.test, ctx + "/if-negated-test")
                self.stmts(b.orelse, a.body, g, ctx + "/if-else-as-body")
                return
            self.expr_pair(b.test, a.test, ctx + "/if-test")
            self.stmts(b.body, a.body, g, ctx + "/if-body")
            self.stmts(b.orelse, a.orelse, g, ctx + "/if-orelse")
            return
        if tb is not ta:
            if tb is ast.Expr and ta is ast.Delete and self._delitem_stmt(b, a, ctx):
                return
            if tb is ast.Expr and ta is ast.Expr:
                pass
            else:
                self.ob("statement-kind-changed", False, f"{ctx}: {tb.__name__} became {ta.__name__}", b, a)
                return
        if tb in (ast.FunctionDef, ast.AsyncFunctionDef):
            if ast.dump(b.args) != ast.dump(a.args) or b.name != a.name:
                self.ob("function-signature", False, ctx, b, a)
            self.globals_pair(b, a, ctx + f"/def {b.name}")
            for db, da in zip(b.decorator_list, a.decorator_list):
                self.expr_pair(db, da, ctx + "/decorator")
            self.stmts(b.body, a.body, set(), ctx + f"/def {b.name}")
            return
        if tb is ast.ClassDef:
            self.stmts(b.body, a.body, g, ctx + f"/class {b.name}")
            return
        if tb is ast.While:
            self.expr_pair(b.test, a.test, ctx + "/while-test")
            self.stmts(b.body, a.body, g, ctx + "/while-body")
            self.stmts(b.orelse, a.orelse, g, ctx + "/while-else")
            return
        if tb is ast.For or tb is ast.AsyncFor:
            self.expr_pair(b.target, a.target, ctx + "/for-target")
            self.expr_pair(b.iter, a.iter, ctx + "/for-iter")
            self.stmts(b.body, a.body, g, ctx + "/for-body")
            self.stmts(b.orelse, a.orelse, g, ctx + "/for-else")
            return
        if tb is ast.Try:
            self.stmts(b.body, a.body, g, ctx + "/try-body")
            if len(b.handlers) != len(a.handlers):
                self.ob("handlers", False, ctx, b, a)
            for hb, ha in zip(b.handlers, a.handlers):
                if (hb.type is None) != (ha.type is None) or hb.name != ha.name:
                    self.ob("handler-shape", False, ctx, hb, ha)
                elif hb.type is not None:
                    self.expr_pair(hb.type, ha.type, ctx + "/except-type")
                self.stmts(hb.body, ha.body, g, ctx + "/except-body")
            self.stmts(b.orelse, a.orelse, g, ctx + "/try-else")
            self.stmts(b.finalbody, a.finalbody, g, ctx + "/finally")
            return
        if tb in (ast.With, ast.AsyncWith):
            for ib, ia in zip(b.items, a.items):
                self.expr_pair(ib.context_expr, ia.context_expr, ctx + "/with-item")
            self.stmts(b.body, a.body, g, ctx + "/with-body")
            return
        # simple statements: compare every expression field pairwise, everything else must be identical
        for (fb, vb), (fa, va) in zip(ast.iter_fields(b), ast.iter_fields(a)):
            if isinstance(vb, ast.AST) and isinstance(va, ast.AST):
                self.expr_pair(vb, va, ctx + f"/{tb.__name__}.{fb}")
            elif isinstance(vb, list) and isinstance(va, list):
                if len(vb) != len(va):
                    self.ob("field-arity", False, f"{ctx}/{tb.__name__}.{fb}", b, a)
                for xb, xa in zip(vb, va):
                    if isinstance(xb, ast.AST) and isinstance(xa, ast.AST):
                        self.expr_pair(xb, xa, ctx + f"/{tb.__name__}.{fb}")
                    elif xb != xa:
                        self.ob("field-changed", False, f"{ctx}/{tb.__name__}.{fb}", b, a)
            elif vb != va:
                self.ob("field-changed", False, f"{ctx}/{tb.__name__}.{fb}", b, a)

    @staticmethod
    def _own_scope(fn):
        """nodes of a function's own scope: nested function / class bodies are scopes of their own"""
        todo = list(fn.body)
        while todo:
            n = todo.pop()
            yield n
            if isinstance(n, (ast.FunctionDef, ast.AsyncFunctionDef, ast.ClassDef)):
                # the name itself is bound in this scope; decorators / defaults are evaluated here, the body is not
                todo.extend(n.decorator_list)
                if not isinstance(n, ast.ClassDef):
                    todo.extend(d for d in n.args.defaults + n.args.kw_defaults if d is not None)
                continue
            if isinstance(n, ast.Lambda):
                continue
            todo.extend(ast.iter_child_nodes(n))

    def _scope_facts(self, fn):
        declared, referenced = set(), set()
        first_ref, decl_pos = {}, {}
        for n in self._own_scope(fn):
            if isinstance(n, ast.Global):
                declared.update(n.names)
                for nm in n.names:
                    decl_pos[nm] = min(decl_pos.get(nm, (1 << 30, 0)), (getattr(n, "lineno", 0), getattr(n, "col_offset", 0)))
            elif isinstance(n, ast.Name):
                referenced.add(n.id)
            elif isinstance(n, (ast.FunctionDef, ast.AsyncFunctionDef, ast.ClassDef)):
                referenced.add(n.name)
        return declared, referenced

    @staticmethod
    def _global_before_use(fn) -> bool:
        """Python's syntactic rule: within the function's own scope no use of a name precedes its `global` declaration
        (document order of the statement list)"""
        seen, ok = set(), [True]

        def walk(stmts):
            for st in stmts:
                if isinstance(st, ast.Global):
                    if any(nm in seen for nm in st.names):
                        ok[0] = False
                    continue
                visit(st)

        def visit(n):
            if isinstance(n, ast.Name):
                seen.add(n.id)
                return
            if isinstance(n, (ast.FunctionDef, ast.AsyncFunctionDef, ast.ClassDef)):
                seen.add(n.name)
                for d in n.decorator_list:
                    visit(d)
                return
            if isinstance(n, ast.Lambda):
                return
            for f, v in ast.iter_fields(n):
                if isinstance(v, list) and v and isinstance(v[0], ast.stmt):
                    walk(v)
                elif isinstance(v, list):
                    for x in v:
                        if isinstance(x, ast.AST):
                            visit(x)
                elif isinstance(v, ast.AST):
                    visit(v)
        walk(fn.body)
        return ok[0]

    def globals_pair(self, b, a, ctx: str):
        """`global` declarations of one function scope, before and after: a name may gain or lose its declaration only if the
        function's own scope never mentions it; and the output must still satisfy 'declared before used'."""
        db, _ = self._scope_facts(b)
        da, ra = self._scope_facts(a)
        changed = sorted(n for n in (db ^ da) if n in ra)
        if changed:
            self.ob("global-scope", False, f"{ctx}: names {changed} are {'no longer' if changed[0] in db else 'newly'} declared global but still used in the function", b, a)
        elif ast.dump(ast.Module(body=[x for x in ast.walk(b) if isinstance(x, ast.Global)], type_ignores=[])) != \
                ast.dump(ast.Module(body=[x for x in ast.walk(a) if isinstance(x, ast.Global)], type_ignores=[])):
            self.ob("global-declarations", True, f"{ctx}: same names declared global in this scope ({sorted(da)}); declarations merged / moved to the top", b, a)
        if self._global_before_use(b) and not self._global_before_use(a):
            self.ob("invalid-ast", False, f"{ctx}: a name is used before its global declaration in the optimized function (SyntaxError)", b, a)

    def _delitem_stmt(self, b: ast.Expr, a: ast.Delete, ctx: str) -> bool:
        """`operator.delitem(x, i)` as a statement (value discarded)  vs  `del x[i]`: same effects in the same order?"""
        import time
        T = Terms(self.alias)
        c = b.value
        if not (isinstance(c, ast.Call) and T.operator_fn(c) == "delitem" and len(c.args) == 2 and not c.keywords
                and not any(isinstance(x, ast.Starred) for x in c.args)
                and len(a.targets) == 1 and isinstance(a.targets[0], ast.Subscript)):
            return False
        _, wb = T.ev(c, T.w0)
        t = a.targets[0]
        v, w = T.ev(t.value, T.w0)
        i, w = T.ev(t.slice, w)
        _, wa = T.step("delitem", w, [v, i])
        s = z3.Solver()
        s.set("timeout", 20000)
        s.add(wb != wa)
        t0 = time.time()
        r = s.check()
        self.solver_s += time.time() - t0
        self.queries += 1
        if r == z3.unsat:
            self.ob("delitem-statement", True, f"{ctx}: operator.delitem call in statement position == del statement (same effects, same order)", b, a)
        else:
            self.ob("delitem-statement", False if r == z3.sat else None, f"{ctx}: del statement differs from the call ({r})", b, a)
        return True

    def module_pair(self, before: ast.AST, after: ast.AST):
        bb = getattr(before, "body", None)
        ab = getattr(after, "body", None)
        if isinstance(bb, list) and isinstance(ab, list):
            self.stmts(bb, ab, set(), "module")
        elif isinstance(before, ast.expr) and isinstance(after, ast.expr):
            self.expr_pair(before, after, "expr")
        elif isinstance(bb, ast.AST) and isinstance(ab, ast.AST):
            self.expr_pair(bb, ab, "expression-module")
        else:
            self.ob("unknown-root", None, type(before).__name__, None, None)
