"""Position-flattened symbolic strings for per-character transducers (str.translate with a literal
table): code points are z3 Ints, piece lengths and offsets are sums, one equation per output position.
z3's native string theory answers `unknown` on these transducers; this encoding decides them in well
under a second for names of a few characters over all code points."""
from __future__ import annotations

from typing import Dict, List

import z3

from .interp import Intrinsic, SBool, SInt, Unsupported


class FlatStr:
    def __init__(self, chars: List, length):
        self.chars = list(chars)  # capacity = len(chars); entries beyond `length` are unconstrained
        self.length = length

    @property
    def cap(self):
        return len(self.chars)

    @staticmethod
    def const(s: str) -> "FlatStr":
        return FlatStr([z3.IntVal(ord(c)) for c in s], z3.IntVal(len(s)))

    @staticmethod
    def fresh(name: str, cap: int, path) -> "FlatStr":
        chars = [z3.Int(f"{name}_c{i}") for i in range(cap)]
        n = z3.Int(f"{name}_len")
        path.assume(z3.And(n >= 0, n <= cap))
        for c in chars:
            path.assume(z3.And(c >= 0, c <= 0x10FFFF))
        f = FlatStr(chars, n)
        path.ghost.setdefault("inputs", {})[name] = f
        return f

    # ---- operations used by the kernels
    def eq(self, other) -> z3.BoolRef:
        if isinstance(other, str):
            if len(other) > self.cap:
                return z3.BoolVal(False)
            return z3.And(self.length == len(other), *[self.chars[i] == ord(ch) for i, ch in enumerate(other)])
        if isinstance(other, FlatStr):
            m = min(self.cap, other.cap)
            conj = [self.length == other.length, self.length <= m]
            for k in range(m):
                conj.append(z3.Implies(k < self.length, self.chars[k] == other.chars[k]))
            return z3.And(*conj)
        return z3.BoolVal(False)

    def translate(self, table: Dict[int, str]) -> "FlatStr":
        maxp = max([len(v) for v in table.values()] + [1])
        entries = sorted(table.items())

        def plen(c):
            e = z3.IntVal(1)
            for k, v in entries:
                e = z3.If(c == k, z3.IntVal(len(v)), e)
            return e

        def pchar(c, p):
            """p-th code point of the piece that replaces character c (p is a z3 Int)"""
            e = c
            for k, v in entries:
                inner = z3.IntVal(0)
                for j, ch in enumerate(v):
                    inner = z3.If(p == j, z3.IntVal(ord(ch)), inner)
                e = z3.If(c == k, inner, e)
            return e

        lens = [plen(c) for c in self.chars]
        offs = [z3.IntVal(0)]
        for i in range(self.cap):
            offs.append(offs[-1] + z3.If(i < self.length, lens[i], 0))
        total = offs[-1]
        out = []
        for k in range(self.cap * maxp):
            e = z3.IntVal(0)
            for i in reversed(range(self.cap)):
                inside = z3.And(i < self.length, offs[i] <= k, k < offs[i] + lens[i])
                e = z3.If(inside, pchar(self.chars[i], k - offs[i]), e)
            out.append(e)
        return FlatStr(out, total)

    def concat_const(self, suffix: str) -> "FlatStr":
        out = []
        for k in range(self.cap + len(suffix)):
            e = self.chars[k] if k < self.cap else z3.IntVal(0)
            for j, ch in enumerate(suffix):
                e = z3.If(self.length + j == k, z3.IntVal(ord(ch)), e)
            out.append(e)
        return FlatStr(out, self.length + len(suffix))

    # ---- PySym protocol hooks
    def pysym_getattr(self, I, name):
        if name == "translate":
            def tr(I_, table):
                if not isinstance(table, dict):
                    raise Unsupported("translate with a non-literal table")
                return self.translate({int(k): v for k, v in table.items()})
            return Intrinsic("str.translate", tr)
        raise Unsupported(f"str.{name} on a flat symbolic string")

    def pysym_eq(self, I, other):
        if isinstance(other, (str, FlatStr)):
            return SBool(self.eq(other))
        return False

    def pysym_len(self, I):
        return SInt(self.length)

    def model_str(self, model) -> str:
        n = model.eval(self.length, model_completion=True).as_long()
        return "".join(chr(model.eval(self.chars[i], model_completion=True).as_long()) for i in range(min(n, self.cap)))


class FlatBytes(FlatStr):
    """bytes of symbolic length <= capacity: one z3 Int in 0..255 per position"""

    @staticmethod
    def fresh(name: str, cap: int, path) -> "FlatBytes":
        chars = [z3.Int(f"{name}_b{i}") for i in range(cap)]
        n = z3.Int(f"{name}_len")
        path.assume(z3.And(n >= 0, n <= cap))
        for c in chars:
            path.assume(z3.And(c >= 0, c <= 255))
        f = FlatBytes(chars, n)
        path.ghost.setdefault("inputs", {})[name] = f
        return f

    def eq(self, other):
        if isinstance(other, (bytes, bytearray)):
            if len(other) > self.cap:
                return z3.BoolVal(False)
            return z3.And(self.length == len(other), *[self.chars[i] == b for i, b in enumerate(other)])
        if isinstance(other, FlatBytes):
            return FlatStr.eq(self, other)
        return z3.BoolVal(False)

    def pysym_eq(self, I, other):
        if isinstance(other, (bytes, bytearray, FlatBytes)):
            return SBool(self.eq(other))
        return False

    def pysym_getslice(self, I, lo, hi):
        lo = 0 if lo is None else lo
        if not isinstance(lo, int) or not (hi is None or isinstance(hi, int)) or lo < 0 or (hi is not None and hi < lo):
            raise Unsupported("slice bounds on symbolic bytes")
        hi_c = self.cap if hi is None else min(hi, self.cap)
        chars = self.chars[lo:hi_c]
        avail = z3.If(self.length - lo < 0, 0, self.length - lo)
        want = len(chars)
        ln = z3.If(avail < want, avail, z3.IntVal(want))
        return FlatBytes(chars, ln)

    def pysym_getattr(self, I, name):
        raise Unsupported(f"bytes.{name} on symbolic bytes")

    def from_bytes_little(self):
        """int.from_bytes(self, 'little') for the current (symbolic) length"""
        total = z3.IntVal(0)
        for i, c in enumerate(self.chars):
            total = total + z3.If(i < self.length, c * (256 ** i), 0)
        return total

    def model_str(self, model):
        n = model.eval(self.length, model_completion=True).as_long()
        return repr(bytes(model.eval(self.chars[i], model_completion=True).as_long() for i in range(min(n, self.cap))))
