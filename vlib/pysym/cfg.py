"""Statement-granularity CFG compiler for the concurrency kernels (Atom, Delay, Promise, Var bindings).

Methods are read from /repo as ASTs and flattened (calls on `self` are inlined statically) into a
list of atomic instructions; one instruction = one scheduling step of the bounded model checker.
Unsupported syntax raises Unsupported -> the obligation is INCONCLUSIVE.
"""
from __future__ import annotations

import ast
from dataclasses import dataclass, field
from typing import Any, Dict, List, Optional, Tuple

from . import loader
from .interp import Unsupported


@dataclass
class Ins:
    kind: str
    line: int
    file: str
    a: Any = None  # target / field / lock / label
    b: Any = None  # expression / args
    c: Any = None  # extra (on_throw label, function name, ...)
    d: Any = None
    note: str = ""

    def __repr__(self):
        return f"{self.kind}@{self.line} a={self.a} b={self.b} c={self.c}"


class ClassInfo:
    """methods of a class and of its repo-defined bases (MRO order as written)"""

    def __init__(self, relpath: str, name: str, bases: List["ClassInfo"]):
        self.relpath, self.name, self.bases = relpath, name, bases
        node = loader.find(relpath, name)
        self.methods: Dict[str, Tuple[ast.FunctionDef, str, str]] = {}
        self.props = set()
        self.static = set()
        for s in node.body:
            if isinstance(s, ast.FunctionDef):
                self.methods[s.name] = (s, relpath, name)
                decs = [ast.unparse(d) for d in s.decorator_list]
                if "property" in decs:
                    self.props.add(s.name)
                if "staticmethod" in decs:
                    self.static.add(s.name)
            elif isinstance(s, ast.Assign) and isinstance(s.value, ast.Name) and s.value.id in self.methods:
                for t in s.targets:
                    if isinstance(t, ast.Name):
                        self.methods[t.id] = self.methods[s.value.id]

    def lookup(self, m: str):
        if m in self.methods:
            return self.methods[m], self
        for b in self.bases:
            r = b.lookup(m)
            if r:
                return r
        return None


@dataclass
class Model:
    """what the compiler needs to know about the object graph being modelled"""
    fields: Dict[str, str]  # shared field name -> kind: 'val' | 'lock' | 'cond' | 'watches' | 'const'
    records: Dict[str, List[str]] = field(default_factory=dict)  # record class -> field names
    n_watches: int = 0
    sub_objects: Dict[str, Tuple[ClassInfo, "Model", str]] = field(default_factory=dict)  # field -> (class, model, prefix)


class Compiler:
    def __init__(self, cls: ClassInfo, model: Model, field_prefix: str = ""):
        self.cls, self.model = cls, model
        self.ins: List[Ins] = []
        self.n_tmp = 0
        self.locals: List[str] = []
        self.labels: Dict[str, int] = {}
        self.prefix = field_prefix

    # ---------------------------------------------------------------- helpers
    def tmp(self, hint="t") -> str:
        self.n_tmp += 1
        name = f"%{hint}{self.n_tmp}"
        self.locals.append(name)
        return name

    def label(self) -> str:
        self.n_tmp += 1
        return f"L{self.n_tmp}"

    def place(self, lab: str):
        self.labels[lab] = len(self.ins)

    def emit(self, kind, node, a=None, b=None, c=None, d=None, note=""):
        self.ins.append(Ins(kind, getattr(node, "lineno", 0), self.cur_file, a, b, c, d, note))

    # ---------------------------------------------------------------- entry: one operation = one method call
    def compile_op(self, method: str, args: List[Any], result_slot: str) -> None:
        """append the instructions of `self.<method>(*args)`; the operation's outcome goes to
        ('ret', value-expr) / ('exc',) instructions referring to result_slot."""
        end = self.label()
        ctx = Ctx(self.cls, self.model, self.prefix, ret_target=None, end_label=end, locks=[], handler=None, env={},
                  op_slot=result_slot, depth=0)
        rt = self.tmp("ret")
        ctx.ret_target = rt
        self.inline(self.cls, method, args, ctx, rt, node=None)
        self.place(end)
        self.cur_file = self.cls.relpath
        self.ins.append(Ins("op_done", 0, self.cls.relpath, result_slot, ("local", rt)))

    def inline(self, cls: ClassInfo, method: str, args: List[Any], outer: "Ctx", target: Optional[str], node,
               model=None, prefix=None):
        found = cls.lookup(method)
        if not found:
            raise Unsupported(f"method {cls.name}.{method} not found")
        (fn, relpath, owner), ocls = found
        saved_file = getattr(self, "cur_file", None)
        if outer.depth > 12:
            raise Unsupported("inline depth")
        params = [p.arg for p in fn.args.args]
        is_static = method in ocls.static
        if not is_static:
            params = params[1:]  # self
        defaults = fn.args.defaults
        env: Dict[str, Any] = {}
        nd = len(defaults)
        for i, p in enumerate(params):
            loc = self.tmp(p)
            if i < len(args):
                val = args[i]
            elif i >= len(params) - nd:
                val = self.const_expr(defaults[i - (len(params) - nd)])
            else:
                raise Unsupported(f"missing arg {p} for {method}")
            self.cur_file = relpath
            if isinstance(val, tuple) and val and val[0] in ("fnref", "lambda"):
                env[p] = val  # function references are bound statically
                continue
            self.emit("assign", fn, loc, val, note=f"bind {p}")
            env[p] = loc
        if fn.args.vararg is not None:
            env[fn.args.vararg.arg] = ("varargs", args[len(params):])
        end = self.label()
        ctx = Ctx(cls, model or outer.model, prefix if prefix is not None else outer.prefix, ret_target=target,
                  end_label=end, locks=list(outer.locks), handler=outer.handler, env=env, op_slot=outer.op_slot,
                  depth=outer.depth + 1, own_lock_base=len(outer.locks), owner=ocls)
        self.cur_file = relpath
        fell = self.block(fn.body, ctx)
        if fell and target is not None:
            self.emit("assign", fn, target, ("none",), note="implicit return None")
        self.place(end)
        self.cur_file = saved_file or relpath

    def const_expr(self, node):
        if isinstance(node, ast.Constant):
            if node.value is None:
                return ("none",)
            if isinstance(node.value, bool):
                return ("bool", node.value)
            if isinstance(node.value, (int, float)):
                return ("num", node.value)
        raise Unsupported(f"default {ast.unparse(node)}")

    # ---------------------------------------------------------------- statements; returns False if control cannot fall through
    def block(self, body: List[ast.stmt], ctx: "Ctx") -> bool:
        for s in body:
            if not self.stmt(s, ctx):
                return False
        return True

    def stmt(self, s: ast.stmt, ctx: "Ctx") -> bool:
        if isinstance(s, ast.Expr):
            if isinstance(s.value, ast.Constant):
                return True
            self.expr_to(s.value, None, ctx, s)
            return True
        if isinstance(s, (ast.Assign, ast.AnnAssign)):
            if isinstance(s, ast.AnnAssign):
                if s.value is None:
                    return True
                targets, value = [s.target], s.value
            else:
                targets, value = s.targets, s.value
            if len(targets) != 1:
                raise Unsupported("multi-target assign")
            t = targets[0]
            if isinstance(t, ast.Name):
                loc = ctx.env.get(t.id)
                if loc is None or not isinstance(loc, str):
                    loc = self.tmp(t.id)
                    ctx.env[t.id] = loc
                self.expr_to(value, loc, ctx, s)
                return True
            if isinstance(t, ast.Attribute) and isinstance(t.value, ast.Name) and t.value.id == "self":
                e = self.pure_or_tmp(value, ctx, s)
                self.emit("store", s, ctx.prefix + t.attr, e)
                return True
            raise Unsupported(f"assign target {ast.unparse(t)}")
        if isinstance(s, ast.Return):
            if s.value is None:
                if ctx.ret_target is not None:
                    self.emit("assign", s, ctx.ret_target, ("none",))
            else:
                if ctx.ret_target is not None:
                    self.expr_to(s.value, ctx.ret_target, ctx, s)
                else:
                    self.expr_to(s.value, None, ctx, s)
            for lk in reversed(ctx.locks[ctx.own_lock_base:]):
                self.emit("release", s, lk, note="return leaves with-block")
            self.emit("jump", s, ctx.end_label)
            return False
        if isinstance(s, ast.If):
            cond = self.cond(s.test, ctx, s)
            l_else, l_end = self.label(), self.label()
            self.emit("branch", s, cond, l_else, note=ast.unparse(s.test)[:60])  # jump to l_else when cond is FALSE
            f1 = self.block(s.body, ctx)
            if f1:
                self.emit("jump", s, l_end)
            self.place(l_else)
            f2 = self.block(s.orelse, ctx)
            self.place(l_end)
            return f1 or f2
        if isinstance(s, ast.While):
            head, out = self.label(), self.label()
            self.place(head)
            infinite = isinstance(s.test, ast.Constant) and s.test.value is True
            if not infinite:
                cond = self.cond(s.test, ctx, s)
                self.emit("branch", s, cond, out)
            else:
                self.emit("nop", s, note="while True")
            ctx2 = ctx.child(loop=(head, out))
            f = self.block(s.body, ctx2)
            if f:
                self.emit("jump", s, head, note="loop back-edge")
            self.place(out)
            return not infinite or ctx2.broke
        if isinstance(s, ast.With):
            if len(s.items) != 1:
                raise Unsupported("with items")
            ce = s.items[0].context_expr
            if not (isinstance(ce, ast.Attribute) and isinstance(ce.value, ast.Name) and ce.value.id == "self"):
                raise Unsupported(f"with {ast.unparse(ce)}")
            lk = ctx.prefix + ce.attr
            if ctx.model.fields.get(ce.attr) not in ("lock", "cond"):
                raise Unsupported(f"with on non-lock field {ce.attr}")
            self.emit("acquire", s, lk)
            ctx2 = ctx.child()
            ctx2.locks = ctx.locks + [lk]
            f = self.block(s.body, ctx2)
            if ctx2.broke:
                ctx.broke = True
            if f:
                self.emit("release", s, lk)
            return f
        if isinstance(s, ast.Try):
            if s.finalbody or s.orelse or len(s.handlers) != 1:
                raise Unsupported("try shape")
            h = s.handlers[0]
            if h.type is not None and ast.unparse(h.type) not in ("Exception", "BaseException"):
                raise Unsupported(f"except {ast.unparse(h.type)}")
            l_h, l_end = self.label(), self.label()
            ctx2 = ctx.child()
            ctx2.handler = (l_h, len(ctx.locks))
            f1 = self.block(s.body, ctx2)
            if f1:
                self.emit("jump", s, l_end)
            self.place(l_h)
            f2 = self.block(h.body, ctx)
            self.place(l_end)
            return f1 or f2
        if isinstance(s, ast.Raise):
            self.do_raise(s, ctx)
            return False
        if isinstance(s, ast.For):
            # only: for k, wf in self._watches.items(): wf(k, self, old, new)
            it = s.iter
            if (isinstance(it, ast.Call) and isinstance(it.func, ast.Attribute) and it.func.attr == "items"
                    and isinstance(it.func.value, ast.Attribute) and ctx.model.fields.get(it.func.value.attr) == "watches"):
                for j in range(ctx.model.n_watches):
                    if len(s.body) != 1 or not isinstance(s.body[0], ast.Expr) or not isinstance(s.body[0].value, ast.Call):
                        raise Unsupported("watch loop body")
                    call = s.body[0].value
                    args = [self.pure_or_tmp(a, ctx, s) for a in call.args[2:]]  # (k, self, old, new) -> old, new
                    self.emit("event", s.body[0], "watch", args, j)
                return True
            raise Unsupported(f"for over {ast.unparse(it)}")
        if isinstance(s, ast.Pass):
            return True
        if isinstance(s, ast.Break):
            head, out = ctx.loop
            self.emit("jump", s, out)
            ctx.mark_broke()
            return False
        if isinstance(s, ast.Continue):
            head, out = ctx.loop
            self.emit("jump", s, head)
            return False
        raise Unsupported(f"statement {type(s).__name__}")

    def do_raise(self, node, ctx: "Ctx"):
        if ctx.handler is not None:
            lab, nlocks = ctx.handler
            for lk in reversed(ctx.locks[nlocks:]):
                self.emit("release", node, lk, note="exception unwinds with-block")
            self.emit("jump", node, lab)
            return
        for lk in reversed(ctx.locks):
            self.emit("release", node, lk, note="exception unwinds with-block")
        self.emit("op_raise", node, ctx.op_slot)

    # ---------------------------------------------------------------- expressions
    def cond(self, e: ast.expr, ctx, node):
        return ("truthy", self.pure_or_tmp(e, ctx, node))

    def pure_or_tmp(self, e: ast.expr, ctx, node):
        if self.is_pure(e, ctx):
            return self.pure(e, ctx)
        t = self.tmp("v")
        self.expr_to(e, t, ctx, node)
        return ("local", t)

    def is_pure(self, e, ctx) -> bool:
        if isinstance(e, ast.Call):
            f = e.func
            if isinstance(f, ast.Name) and f.id in ctx.model.records:
                return all(self.is_pure(k.value, ctx) for k in e.keywords) and all(self.is_pure(a, ctx) for a in e.args)
            return False
        if isinstance(e, ast.Lambda):
            return True
        if isinstance(e, ast.Attribute) and isinstance(e.value, ast.Name) and e.value.id == "self":
            found = ctx.cls.lookup(e.attr)
            if found and e.attr in found[1].props:
                return False
        return all(self.is_pure(c, ctx) for c in ast.iter_child_nodes(e) if isinstance(c, ast.expr))

    def pure(self, e: ast.expr, ctx):
        if isinstance(e, ast.Constant):
            return self.const_expr(e)
        if isinstance(e, ast.Name):
            if e.id in ctx.env:
                v = ctx.env[e.id]
                return ("local", v) if isinstance(v, str) else v
            raise Unsupported(f"free name {e.id}")
        if isinstance(e, ast.Attribute):
            if isinstance(e.value, ast.Name) and e.value.id == "self":
                kind = ctx.model.fields.get(e.attr)
                if kind in ("val", "const"):
                    return ("field", ctx.prefix + e.attr)
                found = ctx.cls.lookup(self._mangled(e.attr, ctx))
                if found and self._mangled(e.attr, ctx) in found[1].static:
                    return ("fnref", found[1], self._mangled(e.attr, ctx))
                raise Unsupported(f"self.{e.attr} as value")
            base = self.pure(e.value, ctx)
            for rec, flds in ctx.model.records.items():
                if e.attr in flds:
                    return ("getf", rec, e.attr, base)
            raise Unsupported(f"attribute .{e.attr}")
        if isinstance(e, ast.Compare) and len(e.ops) == 1:
            a, b = self.pure(e.left, ctx), self.pure(e.comparators[0], ctx)
            op = e.ops[0]
            if isinstance(op, ast.NotEq):
                return ("ne", a, b)
            if isinstance(op, ast.Eq):
                return ("not", ("ne", a, b))
            if isinstance(op, ast.Is):
                return ("is", a, b)
            if isinstance(op, ast.IsNot):
                return ("not", ("is", a, b))
            raise Unsupported(f"compare {type(op).__name__}")
        if isinstance(e, ast.UnaryOp) and isinstance(e.op, ast.Not):
            return ("not", ("truthy", self.pure(e.operand, ctx)))
        if isinstance(e, ast.BoolOp):
            vals = [self.pure(v, ctx) for v in e.values]
            out = vals[-1]
            for v in reversed(vals[:-1]):
                out = ("or", v, out) if isinstance(e.op, ast.Or) else ("and", v, out)
            return out
        if isinstance(e, ast.Call) and isinstance(e.func, ast.Name) and e.func.id in ctx.model.records:
            rec = e.func.id
            vals = {}
            for k in e.keywords:
                vals[k.arg] = self.pure(k.value, ctx)
            for i, a in enumerate(e.args):
                vals[ctx.model.records[rec][i]] = self.pure(a, ctx)
            return ("mk", rec, vals)
        if isinstance(e, ast.Lambda):
            return ("lambda", e, dict(ctx.env), ctx)
        raise Unsupported(f"expression {ast.unparse(e)[:60]}")

    def _mangled(self, attr, ctx):
        # methods are keyed by their source names; private-name mangling is irrelevant for lookup
        return attr

    def expr_to(self, e: ast.expr, target: Optional[str], ctx: "Ctx", node) -> None:
        """evaluate e (possibly with calls) into local `target` (or discard)"""
        if self.is_pure(e, ctx):
            if target is not None:
                self.emit("assign", node, target, self.pure(e, ctx))
            return
        if isinstance(e, ast.Attribute):
            # property access on self, or attribute of a call result
            if isinstance(e.value, ast.Name) and e.value.id == "self":
                self.inline(ctx.cls, e.attr, [], ctx, target, node)
                return
            base = self.pure_or_tmp(e.value, ctx, node)
            for rec, flds in ctx.model.records.items():
                if e.attr in flds:
                    if target is not None:
                        self.emit("assign", node, target, ("getf", rec, e.attr, base))
                    return
            raise Unsupported(f"attribute .{e.attr} of call result")
        if isinstance(e, ast.Call) and isinstance(e.func, ast.Name) and e.func.id in ctx.model.records:
            rec = e.func.id
            vals = {}
            for k in e.keywords:
                vals[k.arg] = self.pure_or_tmp(k.value, ctx, node)
            for i, a in enumerate(e.args):
                vals[ctx.model.records[rec][i]] = self.pure_or_tmp(a, ctx, node)
            if target is not None:
                self.emit("assign", node, target, ("mk", rec, vals))
            return
        if isinstance(e, ast.Call):
            f = e.func
            # self.method(...)
            if isinstance(f, ast.Attribute) and isinstance(f.value, ast.Name) and f.value.id == "self":
                mname = self._mangled(f.attr, ctx)
                args = [self.arg(a, ctx, node) for a in e.args]
                if ctx.cls.lookup(mname):
                    self.inline(ctx.cls, mname, args, ctx, target, node)
                    return
                raise Unsupported(f"self.{f.attr}()")
            # self.<subobject>.method(...)  e.g. self._state.swap(f) / self._condition.wait_for(...)
            if (isinstance(f, ast.Attribute) and isinstance(f.value, ast.Attribute) and isinstance(f.value.value, ast.Name)
                    and f.value.value.id == "self"):
                fld = f.value.attr
                kind = ctx.model.fields.get(fld)
                if kind == "cond":
                    if f.attr == "wait_for":
                        pred = e.args[0]
                        if not isinstance(pred, ast.Lambda):
                            raise Unsupported("wait_for predicate")
                        pe = self.pure(pred.body, ctx)
                        timeout = None
                        for k in e.keywords:
                            if k.arg == "timeout":
                                timeout = self.pure(k.value, ctx)
                        self.emit("wait_for", node, ctx.prefix + fld, pe, target, timeout)
                        return
                    if f.attr in ("notify_all", "notify"):
                        self.emit("nop", node, note="notify")
                        return
                if fld in ctx.model.sub_objects:
                    scls, smodel, sprefix = ctx.model.sub_objects[fld]
                    args = [self.arg(a, ctx, node) for a in e.args]
                    self.inline(scls, f.attr, args, ctx, target, node, model=smodel, prefix=sprefix)
                    return
                raise Unsupported(f"call on self.{fld}")
            # call of a local / parameter: uninterpreted (user function) or a function reference
            if isinstance(f, ast.Name) and f.id in ctx.env:
                fv = ctx.env[f.id]
                args = []
                for a in e.args:
                    if isinstance(a, ast.Starred):
                        v = self.pure(a.value, ctx)
                        if isinstance(v, tuple) and v[0] == "varargs":
                            args.extend(v[1])
                        else:
                            raise Unsupported("starred")
                    else:
                        args.append(self.arg(a, ctx, node))
                for k in e.keywords:
                    if k.arg is None:
                        continue  # **kwargs: always empty in the modelled calls
                    raise Unsupported("keyword arg to user fn")
                if isinstance(fv, tuple) and fv[0] == "fnref":
                    self.inline(fv[1], fv[2], args, ctx, target, node)
                    return
                on_throw = None
                if ctx.handler is not None:
                    on_throw = ctx.handler
                self.emit("ucall", node, target, (fv if isinstance(fv, tuple) else ("local", fv)), args,
                          (on_throw, list(ctx.locks), ctx.op_slot))
                return
            # call through an attribute of a local record: state.f()
            if isinstance(f, ast.Attribute):
                base = self.pure_or_tmp(f.value, ctx, node)
                for rec, flds in ctx.model.records.items():
                    if f.attr in flds:
                        on_throw = ctx.handler
                        self.emit("ucall", node, target, ("getf", rec, f.attr, base),
                                  [self.arg(a, ctx, node) for a in e.args], (on_throw, list(ctx.locks), ctx.op_slot))
                        return
            raise Unsupported(f"call {ast.unparse(e)[:60]}")
        if isinstance(e, ast.IfExp):
            l_else, l_end = self.label(), self.label()
            self.emit("branch", node, self.cond(e.test, ctx, node), l_else)
            self.expr_to(e.body, target, ctx, node)
            self.emit("jump", node, l_end)
            self.place(l_else)
            self.expr_to(e.orelse, target, ctx, node)
            self.place(l_end)
            return
        raise Unsupported(f"impure expression {ast.unparse(e)[:60]}")

    def arg(self, a, ctx, node):
        if isinstance(a, ast.Starred):
            raise Unsupported("starred arg")
        return self.pure_or_tmp(a, ctx, node)


class Ctx:
    def __init__(self, cls, model, prefix, ret_target, end_label, locks, handler, env, op_slot, depth,
                 own_lock_base=0, owner=None):
        self.cls, self.model, self.prefix = cls, model, prefix
        self.ret_target, self.end_label = ret_target, end_label
        self.locks, self.handler, self.env = locks, handler, env
        self.op_slot, self.depth, self.own_lock_base = op_slot, depth, own_lock_base
        self.loop = None
        self.broke = False
        self.parent = None
        self.owner = owner

    def child(self, loop=None):
        c = Ctx(self.cls, self.model, self.prefix, self.ret_target, self.end_label, list(self.locks), self.handler,
                self.env, self.op_slot, self.depth, self.own_lock_base, self.owner)
        c.loop = loop or self.loop
        c.parent = self
        return c

    def mark_broke(self):
        c = self
        while c is not None:
            c.broke = True
            c = c.parent
