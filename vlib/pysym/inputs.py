"""Symbolic input constructors (registering every input in path.ghost['inputs'] for model decoding)."""
import z3

from .interp import Obj, Path, SBool, SInt, SStr, SVal, ValSort


def _reg(path: Path, name, v):
    path.ghost.setdefault("inputs", {})[name] = v
    return v


def sym_int(path: Path, name: str, lo=None, hi=None) -> SInt:
    t = z3.Int(name)
    if lo is not None:
        path.assume(t >= lo)
    if hi is not None:
        path.assume(t <= hi)
    return _reg(path, name, SInt(t))


def sym_bool(path: Path, name: str) -> SBool:
    return _reg(path, name, SBool(z3.Bool(name)))


def sym_str(path: Path, name: str, maxlen=None) -> SStr:
    t = z3.String(name)
    if maxlen is not None:
        path.assume(z3.Length(t) <= maxlen)
    return _reg(path, name, SStr(t))


def opt_str(path: Path, name: str, maxlen=None):
    """Optional[str]: the None-ness is a solver-visible boolean, explored as a fork"""
    isnone = z3.Bool(name + "_is_none")
    if path.branch(isnone):
        return _reg(path, name, None)
    return sym_str(path, name, maxlen)


def sym_val(path: Path, name: str) -> SVal:
    return _reg(path, name, SVal(z3.Const(name, ValSort)))


def obj(path: Path, name: str, cls, **fields) -> Obj:
    o = Obj(cls, fields)
    path.ghost.setdefault("inputs", {})[name] = o
    return o
