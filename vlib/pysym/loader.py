"""Find function / class ASTs in /repo by qualified name (never by line number); re-read on every run."""
from __future__ import annotations

import ast
import os
from typing import Dict, Optional, Tuple

from ..env import REPO

_cache: Dict[str, Tuple[str, ast.Module]] = {}


def module_ast(relpath: str) -> Tuple[str, ast.Module]:
    if relpath not in _cache:
        with open(os.path.join(REPO, relpath)) as f:
            text = f.read()
        _cache[relpath] = (text, ast.parse(text))
    return _cache[relpath]


def find(relpath: str, qualname: str) -> ast.AST:
    _, mod = module_ast(relpath)
    node: ast.AST = mod
    for part in qualname.split("."):
        body = getattr(node, "body", [])
        nxt = None
        # the *last* definition wins, as at import time; look through if/try at module level
        stack = list(body)
        flat = []
        while stack:
            s = stack.pop(0)
            flat.append(s)
            if isinstance(s, (ast.If, ast.Try)):
                stack = list(s.body) + list(getattr(s, "orelse", [])) + stack
        for s in flat:
            if isinstance(s, (ast.FunctionDef, ast.AsyncFunctionDef, ast.ClassDef)) and s.name == part:
                nxt = s
            elif isinstance(s, ast.Assign) and any(isinstance(t, ast.Name) and t.id == part for t in s.targets):
                nxt = s
            elif isinstance(s, ast.AnnAssign) and isinstance(s.target, ast.Name) and s.target.id == part:
                nxt = s
        if nxt is None:
            raise KeyError(f"{qualname} not found in {relpath}")
        node = nxt
    return node


def source_of(relpath: str, qualname: str) -> str:
    text, _ = module_ast(relpath)
    node = find(relpath, qualname)
    return ast.get_source_segment(text, node) or ast.dump(node)


def func(relpath: str, qualname: str) -> ast.FunctionDef:
    n = find(relpath, qualname)
    if not isinstance(n, (ast.FunctionDef, ast.AsyncFunctionDef)):
        raise KeyError(f"{qualname} in {relpath} is not a function")
    return n
