"""Bounded model checking of the compiled CFGs with a *symbolic schedule*.

One z3 Int `sched[k]` per global step picks the thread that executes one instruction; all data
(stored values, user functions, validator verdicts, NaN-likeness) are uninterpreted.  `unsat`
of (run completes within K steps AND property violated) = the property holds for every schedule
and every value within the bound.
"""
from __future__ import annotations

import itertools
import time
from typing import Any, Dict, List, Optional, Tuple

import z3

from .cfg import ClassInfo, Compiler, Ins, Model
from .interp import Unsupported

BODY_BASE = 1000000
BW = 10  # control variables (pc, schedule, lock owner/count, ghost counters) are bit-vectors: no arithmetic theory needed


def ISort():
    return z3.BitVecSort(BW)


def IVal(n):
    return z3.BitVecVal(n, BW)



class Values:
    """the value datatype V: nil | b(bool) | o(id) | one constructor per record class"""

    def __init__(self, records: Dict[str, List[str]], allow_selfneq: bool = True):
        self.allow_selfneq = allow_selfneq
        V = z3.Datatype("V")
        V.declare("nil")
        V.declare("b", ("bv", z3.BoolSort()))
        V.declare("o", ("oid", z3.IntSort()))
        for rec, flds in records.items():
            V.declare("rec_" + rec, *[(f"{rec}_{f}", V) for f in flds])
        self.V = V.create()
        self.records = records
        V_ = self.V
        self.truthy_o = z3.Function("truthy_o", z3.IntSort(), z3.BoolSort())
        self.selfneq_o = z3.Function("selfneq_o", z3.IntSort(), z3.BoolSort())
        self.app0_throws = z3.Function("body_throws", z3.IntSort(), z3.BoolSort())
        self.app = {n: z3.Function(f"app{n}", *([V_] * (n + 1)), V_) for n in (1, 2, 3)}
        self.throws = {n: z3.Function(f"throws{n}", *([V_] * (n + 1)), z3.BoolSort()) for n in (1, 2, 3)}

    def nil(self):
        return self.V.nil

    def b(self, x):
        return self.V.b(x if not isinstance(x, bool) else z3.BoolVal(x))

    def o(self, i):
        return self.V.o(i if not isinstance(i, int) else z3.IntVal(i))

    def truthy(self, v):
        V = self.V
        return z3.If(V.is_nil(v), z3.BoolVal(False),
                     z3.If(V.is_b(v), V.bv(v), z3.If(V.is_o(v), self.truthy_o(V.oid(v)), z3.BoolVal(True))))

    def selfneq(self, v):
        V = self.V
        if not self.allow_selfneq:
            return z3.BoolVal(False)
        return z3.And(V.is_o(v), self.selfneq_o(V.oid(v)))

    def ne(self, a, b):
        """Python `a != b` for the modelled universe: distinct objects are unequal; an object may
        be unequal to itself (NaN, pathological __eq__)"""
        return z3.Or(a != b, self.selfneq(a))

    def getf(self, rec, fld, v):
        return getattr(self.V, f"{rec}_{fld}")(v)

    def mk(self, rec, vals: Dict[str, Any]):
        return getattr(self.V, "rec_" + rec)(*[vals[f] for f in self.records[rec]])


class Thread:
    def __init__(self, tid: int, ins: List[Ins], labels: Dict[str, int], locals_: List[str], op_slots: List[str],
                 op_end: Dict[str, int]):
        self.tid, self.ins, self.labels, self.locals, self.op_slots, self.op_end = tid, ins, labels, locals_, op_slots, op_end


class System:
    def __init__(self, vals: Values, fields: Dict[str, str], watched_field: Optional[str] = None, max_trans: int = 6):
        self.vals = vals
        self.fields = fields  # full (prefixed) name -> kind
        self.threads: List[Thread] = []
        self.consts: Dict[str, Any] = {}
        self.watched_field = watched_field
        self.max_trans = max_trans
        self.init_constraints: List[Any] = []

    def const(self, name: str):
        if name not in self.consts:
            self.consts[name] = z3.Const(name, self.vals.V)
        return self.consts[name]

    def add_thread(self, cls: ClassInfo, model: Model, ops: List[Tuple[str, List[Any]]], prefix: str = "") -> Thread:
        tid = len(self.threads)
        comp = Compiler(cls, model, prefix)
        comp.cur_file = cls.relpath
        slots = []
        op_end = {}
        for j, (method, args) in enumerate(ops):
            slot = f"t{tid}op{j}"
            slots.append(slot)
            comp.compile_op(method, args, slot)
            op_end[slot] = len(comp.ins)
        ins, labels, remap = postprocess(comp.ins, comp.labels)
        op_end = {s_: remap[i] for s_, i in op_end.items()}
        th = Thread(tid, ins, labels, comp.locals, slots, op_end)
        self.threads.append(th)
        return th

    # ------------------------------------------------------------------ unrolling
    def unroll(self, K: int):
        V = self.vals.V
        vals = self.vals
        T = len(self.threads)
        cs: List[Any] = list(self.init_constraints)
        sched = [z3.BitVec(f"sched_{k}", BW) for k in range(K)]

        def mkvar(name, sort, k):
            return z3.Const(f"{name}@{k}", sort)

        st: List[Dict[str, Any]] = []
        for k in range(K + 1):
            d: Dict[str, Any] = {}
            for th in self.threads:
                d[f"pc{th.tid}"] = mkvar(f"pc{th.tid}", ISort(), k)
                d[f"callno{th.tid}"] = mkvar(f"callno{th.tid}", ISort(), k)
                d[f"savedcnt{th.tid}"] = mkvar(f"savedcnt{th.tid}", ISort(), k)
                for l in th.locals:
                    d[f"L{th.tid}:{l}"] = mkvar(f"L{th.tid}:{l}", V, k)
                for s in th.op_slots:
                    d[f"status:{s}"] = mkvar(f"status:{s}", ISort(), k)  # 0 pending, 1 returned, 2 raised
                    d[f"result:{s}"] = mkvar(f"result:{s}", V, k)
            for f, kind in self.fields.items():
                if kind in ("val", "const"):
                    d[f"F:{f}"] = mkvar(f"F:{f}", V, k)
                elif kind in ("lock", "cond"):
                    d[f"own:{f}"] = mkvar(f"own:{f}", ISort(), k)
                    d[f"cnt:{f}"] = mkvar(f"cnt:{f}", ISort(), k)
            for g in ("g_running", "g_ncalls", "g_maxrunning", "g_ntrans", "g_callafter"):
                d[g] = mkvar(g, ISort(), k)
            d["g_badwatch"] = mkvar("g_badwatch", z3.BoolSort(), k)
            d["g_returned_calls"] = mkvar("g_returned_calls", ISort(), k)
            for m in range(self.max_trans):
                d[f"g_trold{m}"] = mkvar(f"g_trold{m}", V, k)
                d[f"g_trnew{m}"] = mkvar(f"g_trnew{m}", V, k)
            st.append(d)
        # initial state
        d0 = st[0]
        for th in self.threads:
            cs.append(d0[f"pc{th.tid}"] == 0)
            cs.append(d0[f"callno{th.tid}"] == -1)
            cs.append(d0[f"savedcnt{th.tid}"] == 0)
            for l in th.locals:
                cs.append(d0[f"L{th.tid}:{l}"] == V.nil)
            for s in th.op_slots:
                cs.append(d0[f"status:{s}"] == 0)
                cs.append(d0[f"result:{s}"] == V.nil)
        for f, kind in self.fields.items():
            if kind in ("lock", "cond"):
                cs.append(d0[f"own:{f}"] == -1)
                cs.append(d0[f"cnt:{f}"] == 0)
            elif kind in ("val", "const"):
                cs.append(d0[f"F:{f}"] == self.const("init_" + f))
        for g in ("g_running", "g_ncalls", "g_maxrunning", "g_ntrans", "g_callafter", "g_returned_calls"):
            cs.append(d0[g] == 0)
        cs.append(d0["g_badwatch"] == z3.BoolVal(False))
        for m in range(self.max_trans):
            cs.append(d0[f"g_trold{m}"] == V.nil)
            cs.append(d0[f"g_trnew{m}"] == V.nil)

        enabled_any = []
        for k in range(K):
            cur, nxt = st[k], st[k + 1]
            updates: Dict[str, List[Tuple[Any, Any]]] = {name: [] for name in cur}
            en_list = []
            for th in self.threads:
                t = th.tid
                pc = cur[f"pc{t}"]
                sel_t = sched[k] == t
                en_terms = []
                for i in self.cut_points(th):
                    if i >= len(th.ins):
                        continue
                    ins = th.ins[i]
                    here = z3.And(sel_t, pc == i)
                    en_i, _, _ = self.step(th, i, ins, cur)
                    post = self.macro(th, i, cur, True)
                    en_terms.append(z3.And(pc == i, en_i))
                    for name, val in post.items():
                        if val is not cur[name]:
                            updates[name].append((here, val))
                en_t = z3.Or(*en_terms) if en_terms else z3.BoolVal(False)
                en_list.append(en_t)
                cs.append(z3.Implies(sel_t, en_t))
            any_en = z3.Or(*en_list)
            enabled_any.append(any_en)
            cs.append(z3.Or(sched[k] == -1, *[sched[k] == t_ for t_ in range(T)]))
            cs.append((sched[k] == -1) == z3.Not(any_en))
            for name, ups in updates.items():
                e = cur[name]
                for cond, val in reversed(ups):
                    e = z3.If(cond, val, e)
                cs.append(nxt[name] == e)
        self.st, self.sched, self.K = st, sched, K
        return cs

    # ------------------------------------------------------------------ expression evaluation
    def ev(self, th: Thread, e, cur):
        vals, V = self.vals, self.vals.V
        k = e[0]
        if k == "none":
            return V.nil
        if k == "bool":
            return vals.b(e[1])
        if k == "num":
            return vals.o(int(e[1]))
        if k == "local":
            return cur[f"L{th.tid}:{e[1]}"]
        if k == "field":
            return cur[f"F:{e[1]}"]
        if k == "z3":
            return e[1]
        if k == "ne":
            return vals.b(vals.ne(self.ev(th, e[1], cur), self.ev(th, e[2], cur)))
        if k == "is":
            return vals.b(self.ev(th, e[1], cur) == self.ev(th, e[2], cur))
        if k == "not":
            return vals.b(z3.Not(vals.truthy(self.ev(th, e[1], cur))))
        if k == "truthy":
            return vals.b(vals.truthy(self.ev(th, e[1], cur)))
        if k == "or":
            a = self.ev(th, e[1], cur)
            return z3.If(vals.truthy(a), a, self.ev(th, e[2], cur))
        if k == "and":
            a = self.ev(th, e[1], cur)
            return z3.If(vals.truthy(a), self.ev(th, e[2], cur), a)
        if k == "getf":
            return vals.getf(e[1], e[2], self.ev(th, e[3], cur))
        if k == "mk":
            return vals.mk(e[1], {f: self.ev(th, x, cur) for f, x in e[2].items()})
        raise Unsupported(f"bmc expression {k}")

    def _release_ups(self, th, locks, cur):
        """updates for releasing each lock in `locks` once (in one atomic step)"""
        ups = []
        cnts: Dict[str, Any] = {}
        for lk in locks:
            c = cnts.get(lk, cur[f"cnt:{lk}"]) - 1
            cnts[lk] = c
        for lk, c in cnts.items():
            ups.append((f"cnt:{lk}", c))
            ups.append((f"own:{lk}", z3.If(c == 0, IVal(-1), cur[f"own:{lk}"])))
        return ups

    def step(self, th: Thread, i: int, ins: Ins, cur):
        """(enabled condition, [(state var, new value)], [(condition, successor pc)]) -- the successor
        conditions are mutually exclusive and exhaustive"""
        t = th.tid
        vals, V = self.vals, self.vals.V
        TRUE = z3.BoolVal(True)
        NXT = [(TRUE, i + 1)]
        k = ins.kind
        if k == "assign":
            return TRUE, [(f"L{t}:{ins.a}", self.ev(th, ins.b, cur))], NXT
        if k == "nop":
            return TRUE, [], NXT
        if k == "store":
            v = self.ev(th, ins.b, cur)
            ups = [(f"F:{ins.a}", v)]
            if ins.a == self.watched_field:
                n = cur["g_ntrans"]
                ups.append(("g_ntrans", n + 1))
                for m in range(self.max_trans):
                    ups.append((f"g_trold{m}", z3.If(n == m, cur[f"F:{ins.a}"], cur[f"g_trold{m}"])))
                    ups.append((f"g_trnew{m}", z3.If(n == m, v, cur[f"g_trnew{m}"])))
            return TRUE, ups, NXT
        if k == "branch":
            c = vals.truthy(self.ev(th, ins.a, cur))
            return TRUE, [], [(c, i + 1), (z3.Not(c), th.labels[ins.b])]
        if k == "jump":
            return TRUE, [], [(TRUE, th.labels[ins.a])]
        if k == "acquire":
            own, cnt = cur[f"own:{ins.a}"], cur[f"cnt:{ins.a}"]
            return z3.Or(own == -1, own == t), [(f"own:{ins.a}", IVal(t)), (f"cnt:{ins.a}", cnt + 1)], NXT
        if k == "release":
            return TRUE, self._release_ups(th, [ins.a], cur), NXT
        if k == "op_done":
            return TRUE, [(f"status:{ins.a}", IVal(1)), (f"result:{ins.a}", self.ev(th, ins.b, cur))], NXT
        if k == "op_raise":
            return TRUE, [(f"status:{ins.a}", IVal(2))], [(TRUE, th.op_end[ins.a])]
        if k == "event":
            old, new = [self.ev(th, a, cur) for a in ins.b]
            real = z3.Or(*[z3.And(cur["g_ntrans"] > m, cur[f"g_trold{m}"] == old, cur[f"g_trnew{m}"] == new)
                           for m in range(self.max_trans)])
            return TRUE, [("g_badwatch", z3.Or(cur["g_badwatch"], z3.Not(real)))], NXT
        if k in ("ucall", "ucall_exit"):
            target, fnexpr, args, (on_throw, locks, slot) = ins.a, ins.b, ins.c, ins.d
            n = len(args)
            ups = []
            if k == "ucall" and n == 0:
                # effectful body call, first half: enter
                ups = [("g_running", cur["g_running"] + 1), ("g_ncalls", cur["g_ncalls"] + 1),
                       (f"callno{t}", cur["g_ncalls"]),
                       ("g_maxrunning", z3.If(cur["g_running"] + 1 > cur["g_maxrunning"], cur["g_running"] + 1, cur["g_maxrunning"])),
                       ("g_callafter", z3.If(cur["g_returned_calls"] > 0, cur["g_callafter"] + 1, cur["g_callafter"]))]
                return TRUE, ups, NXT
            if k == "ucall_exit":
                cn = cur[f"callno{t}"]
                thr = vals.app0_throws(z3.BV2Int(cn))
                res = vals.o(BODY_BASE + z3.BV2Int(cn))
                ups = [("g_running", cur["g_running"] - 1),
                       ("g_returned_calls", z3.If(thr, cur["g_returned_calls"], cur["g_returned_calls"] + 1))]
            else:
                if n not in vals.app:
                    raise Unsupported(f"user function arity {n}")
                fn = self.ev(th, fnexpr, cur)
                argv = [self.ev(th, a, cur) for a in args]
                res = vals.app[n](fn, *argv)
                thr = vals.throws[n](fn, *argv)
            if target is not None:
                ups.append((f"L{t}:{target}", z3.If(thr, cur[f"L{t}:{target}"], res)))
            if on_throw is not None:
                lab, nlocks = on_throw
                rel = self._release_ups(th, locks[nlocks:], cur)
                ups += [(nm, z3.If(thr, v, cur[nm])) for nm, v in rel]
                return TRUE, ups, [(thr, th.labels[lab]), (z3.Not(thr), i + 1)]
            rel = self._release_ups(th, locks, cur)
            ups += [(nm, z3.If(thr, v, cur[nm])) for nm, v in rel]
            ups.append((f"status:{slot}", z3.If(thr, IVal(2), cur[f"status:{slot}"])))
            return TRUE, ups, [(thr, th.op_end[slot]), (z3.Not(thr), i + 1)]
        if k == "wait_for":
            lk, pred, target, timeout = ins.a, ins.b, ins.c, ins.d
            p = vals.truthy(self.ev(th, pred, cur))
            ups = [(f"savedcnt{t}", z3.If(p, cur[f"savedcnt{t}"], cur[f"cnt:{lk}"])),
                   (f"cnt:{lk}", z3.If(p, cur[f"cnt:{lk}"], IVal(0))),
                   (f"own:{lk}", z3.If(p, cur[f"own:{lk}"], IVal(-1)))]
            if target is not None:
                ups.append((f"L{t}:{target}", z3.If(p, vals.b(True), cur[f"L{t}:{target}"])))
            return cur[f"own:{lk}"] == t, ups, [(p, i + 2), (z3.Not(p), i + 1)]
        if k == "wait_wake":
            lk, pred, target, timeout = ins.a, ins.b, ins.c, ins.d
            p = vals.truthy(self.ev(th, pred, cur))
            has_timeout = z3.BoolVal(False) if timeout is None else (self.ev(th, timeout, cur) != V.nil)
            ups = [(f"own:{lk}", IVal(t)), (f"cnt:{lk}", cur[f"savedcnt{t}"])]
            if target is not None:
                ups.append((f"L{t}:{target}", vals.b(p)))
            return z3.And(cur[f"own:{lk}"] == -1, z3.Or(p, has_timeout)), ups, NXT
        raise Unsupported(f"bmc instruction {k}")

    # ---- partial-order reduction: thread-local instructions are fused into the preceding macro-step
    def _reads_shared(self, e) -> bool:
        if isinstance(e, tuple):
            if e and e[0] == "field":
                return self.fields.get(e[1]) != "const"
            return any(self._reads_shared(x) for x in e if isinstance(x, (tuple, list, dict)))
        if isinstance(e, list):
            return any(self._reads_shared(x) for x in e)
        if isinstance(e, dict):
            return any(self._reads_shared(x) for x in e.values())
        return False

    def is_cut(self, th: Thread, i: int) -> bool:
        """scheduling point: instruction touches shared state (or is a loop head / end of program)"""
        if i >= len(th.ins):
            return True
        ins = th.ins[i]
        if ins.kind in ("store", "acquire", "release", "event", "ucall_exit", "wait_for", "wait_wake"):
            return True
        if ins.kind == "ucall" and len(ins.c) == 0:
            return True
        if ins.kind == "nop" and ins.note == "while True":
            return True
        if ins.kind == "ucall":
            return self._reads_shared(ins.b) or self._reads_shared(ins.c)
        return self._reads_shared(ins.a) or self._reads_shared(ins.b)

    def macro(self, th: Thread, i: int, d: Dict[str, Any], first: bool, depth: int = 0) -> Dict[str, Any]:
        """state after executing instruction i and every following thread-local instruction"""
        pcn = f"pc{th.tid}"
        if depth > 400:
            raise Unsupported("local instruction sequence too long (local loop?)")
        if not first and self.is_cut(th, i):
            d2 = dict(d)
            d2[pcn] = IVal(i)
            return d2
        ins = th.ins[i]
        _, ups, succs = self.step(th, i, ins, d)
        d2 = dict(d)
        for nm, v in ups:
            d2[nm] = v
        outs = [(c, self.macro(th, j, d2, False, depth + 1)) for c, j in succs]
        res = outs[-1][1]
        for c, o in reversed(outs[:-1]):
            merged = {}
            for nm in res:
                a, b = o[nm], res[nm]
                merged[nm] = a if a is b else z3.If(c, a, b)
            res = merged
        return res

    def cut_points(self, th: Thread) -> List[int]:
        return [i for i in range(len(th.ins)) if i == 0 or self.is_cut(th, i)]

    # ------------------------------------------------------------------ queries
    def all_done(self, k: Optional[int] = None):
        d = self.st[self.K if k is None else k]
        return z3.And(*[d[f"pc{th.tid}"] == len(th.ins) for th in self.threads])

    def deadlock(self):
        """nobody is enabled although somebody has not finished (stuck states persist, so it is
        enough to look at the last step)"""
        return z3.And(self.sched[self.K - 1] == -1, z3.Not(self.all_done()))

    def not_finished_but_running(self):
        return z3.And(self.sched[self.K - 1] != -1, z3.Not(self.all_done()))

    def trace(self, model) -> List[Dict[str, Any]]:
        out = []
        for k in range(self.K):
            t = model.eval(self.sched[k], model_completion=True).as_signed_long()
            if t < 0:
                continue
            th = self.threads[t]
            pc = model.eval(self.st[k][f"pc{t}"], model_completion=True).as_long()
            ins = th.ins[pc]
            out.append({"step": k, "thread": t, "pc": pc, "kind": ins.kind, "file": ins.file, "line": ins.line,
                        "note": ins.note})
        return out


def postprocess(th_ins: List[Ins], labels: Dict[str, int]):
    """split zero-argument (effectful) ucalls into enter/exit and wait_for into wait/wake; fix labels"""
    new: List[Ins] = []
    remap = {}
    for i, ins in enumerate(th_ins):
        remap[i] = len(new)
        new.append(ins)
        if ins.kind == "ucall" and len(ins.c) == 0:
            new.append(Ins("ucall_exit", ins.line, ins.file, ins.a, ins.b, ins.c, ins.d, "body returns"))
        if ins.kind == "wait_for":
            new.append(Ins("wait_wake", ins.line, ins.file, ins.a, ins.b, ins.c, ins.d, "woken / timed out"))
    remap[len(th_ins)] = len(new)
    return new, {l: remap[i] for l, i in labels.items()}, remap


def shared_lines(S: "System"):
    """(file basename, line) of every scheduling point (macro-step start) of every thread"""
    import os
    out = set()
    for th in S.threads:
        for i in S.cut_points(th):
            if i < len(th.ins) and th.ins[i].line:
                out.add((os.path.basename(th.ins[i].file), th.ins[i].line))
    return sorted(out)


def grants(trace):
    """one grant per macro-step that starts on a new (thread, line): the replay lets the named thread run to its next
    scheduling-point line"""
    import os
    out, last = [], {}
    for e in trace:
        key = (os.path.basename(e["file"]), e["line"])
        if e["line"] and last.get(e["thread"]) != key:
            out.append(e["thread"])
        last[e["thread"]] = key
    return out
