"""Python data-model semantics for PySym: truthiness, ==/</... dispatch with NotImplemented and
reflected operands, functools.total_ordering derivations (interpreted from the *stdlib's own
source*), isinstance over the loaded class lattice, arithmetic on Int / Real models."""
from __future__ import annotations

import ast
import builtins
import functools
import inspect
from typing import Any, List

import z3

from .interp import (NOTIMPL, BoundMethod, ClassVal, ExcVal, FuncVal, Interp, Intrinsic, Obj, PropertyVal,
                     PyRaise, SBool, SInt, SReal, SStr, StaticMethodVal, SVal, Unsupported, ModuleVal, Frame,
                     ExtModule, LazyIntrinsic)

_EXC_PARENTS = {}
for _n in dir(builtins):
    _o = getattr(builtins, _n)
    if isinstance(_o, type) and issubclass(_o, BaseException):
        _EXC_PARENTS[_n] = [b.__name__ for b in _o.__mro__]
# exception classes defined by the repository (parents read from source where needed)
_EXTRA_EXC = {"ExceptionInfo": ["ExceptionInfo", "Exception", "BaseException", "object"],
              "RuntimeException": ["RuntimeException", "Exception", "BaseException", "object"],
              "ImportError": _EXC_PARENTS["ImportError"]}


def exc_is_subclass(cls: str, parent: str) -> bool:
    if cls == parent:
        return True
    mro = _EXC_PARENTS.get(cls) or _EXTRA_EXC.get(cls)
    if mro is None:
        return parent in ("Exception", "BaseException")
    return parent in mro


def register_exception(name: str, mro: List[str]):
    _EXTRA_EXC[name] = mro


# ------------------------------------------------------------------------------ truthiness


def truthy(I: Interp, v) -> bool:
    if v is None or v is False:
        return False
    if v is True or v is NOTIMPL:
        return True
    if isinstance(v, SBool):
        return I.path.branch(v.t)
    if isinstance(v, bool):
        return v
    if isinstance(v, int):
        return v != 0
    if isinstance(v, SInt):
        return I.path.branch(v.t != 0)
    if isinstance(v, SReal):
        return I.path.branch(v.t != 0)
    if isinstance(v, (str, bytes, tuple, list, dict, set, frozenset)):
        return len(v) > 0
    if isinstance(v, SStr):
        return I.path.branch(z3.Length(v.t) > 0)
    if isinstance(v, Obj):
        b = v.cls.lookup("__bool__")
        if b is not None:
            return truthy(I, I.call(b, [v]))
        ln = v.cls.lookup("__len__")
        if ln is not None:
            return truthy(I, I.call(ln, [v]))
        hook = I.method_hooks.get((v.cls.name, "__bool__"))
        if hook:
            return truthy(I, hook(I, v))
        return True
    if isinstance(v, (FuncVal, ClassVal, Intrinsic, BoundMethod, ExcVal)):
        return True
    if isinstance(v, SVal):
        # opaque value: its truthiness is an uninterpreted predicate
        return I.path.branch(z3.Function("truthy", v.t.sort(), z3.BoolSort())(v.t))
    if hasattr(v, "pysym_truthy"):
        return v.pysym_truthy(I)
    raise Unsupported(f"truthiness of {v!r}")


# ------------------------------------------------------------------------------ equality / ordering


def _tint(v):
    if isinstance(v, SInt):
        return v.t
    if isinstance(v, bool):
        return z3.IntVal(1 if v else 0)
    if isinstance(v, int):
        return z3.IntVal(v)
    return None


def _treal(v):
    if isinstance(v, SReal):
        return v.t
    t = _tint(v)
    if t is not None:
        return z3.ToReal(t)
    return None


def _tstr(v):
    if isinstance(v, SStr):
        return v.t
    if isinstance(v, str):
        return z3.StringVal(v)
    return None


def _is_num(v):
    return isinstance(v, (SInt, SReal, int)) and v is not None


def py_eq(I: Interp, a, b):
    """value of `a == b` (a Python bool or SBool); follows the == protocol"""
    if a is b and not isinstance(a, (SVal,)):
        if isinstance(a, Obj) and a.cls.lookup("__eq__") is not None:
            pass  # user __eq__ may still say no; fall through
        elif not isinstance(a, (SInt, SReal, SStr, SBool)):
            return True
    if hasattr(a, "pysym_eq"):
        return a.pysym_eq(I, b)
    if hasattr(b, "pysym_eq"):
        return b.pysym_eq(I, a)
    if isinstance(a, Obj) or isinstance(b, Obj):
        for x, y in ((a, b), (b, a)):
            if isinstance(x, Obj):
                m = x.cls.lookup("__eq__")
                if m is not None:
                    r = I.call(m, [x, y])
                    if r is not NOTIMPL:
                        return r
                hook = I.method_hooks.get((x.cls.name, "__eq__"))
                if hook is not None:
                    r = hook(I, x, y)
                    if r is not NOTIMPL:
                        return r
        return a is b
    if a is None or b is None:
        return a is b
    if a is NOTIMPL or b is NOTIMPL:
        return a is b
    if isinstance(a, SBool) or isinstance(b, SBool):
        ta = a.t if isinstance(a, SBool) else (z3.BoolVal(a) if isinstance(a, bool) else None)
        tb = b.t if isinstance(b, SBool) else (z3.BoolVal(b) if isinstance(b, bool) else None)
        if ta is not None and tb is not None:
            return SBool(ta == tb)
        raise Unsupported("== between symbolic bool and non-bool")
    if _is_num(a) and _is_num(b):
        if isinstance(a, SReal) or isinstance(b, SReal):
            return SBool(_treal(a) == _treal(b))
        if isinstance(a, SInt) or isinstance(b, SInt):
            return SBool(_tint(a) == _tint(b))
        return a == b
    sa, sb = _tstr(a), _tstr(b)
    if sa is not None and sb is not None:
        if isinstance(a, str) and isinstance(b, str):
            return a == b
        return SBool(sa == sb)
    if (sa is not None) != (sb is not None) and (sa is not None or sb is not None):
        if isinstance(a, (SVal,)) or isinstance(b, (SVal,)):
            raise Unsupported("== between str and opaque value")
        return False
    if isinstance(a, tuple) and isinstance(b, tuple):
        if len(a) != len(b):
            return False
        acc = []
        for x, y in zip(a, b):
            r = py_eq(I, x, y)
            if r is False:
                return False
            if r is True:
                continue
            acc.append(r.t)
        if not acc:
            return True
        return SBool(z3.And(*acc) if len(acc) > 1 else acc[0])
    if isinstance(a, SVal) and isinstance(b, SVal):
        if hasattr(I, "sval_eq"):
            return I.sval_eq(a, b)
        return SBool(a.t == b.t)
    if isinstance(a, SVal) or isinstance(b, SVal):
        raise Unsupported(f"== between opaque value and {a!r}/{b!r}")
    if isinstance(a, (ClassVal, FuncVal, ExcVal)) or isinstance(b, (ClassVal, FuncVal, ExcVal)):
        return a is b
    try:
        return a == b
    except Exception:
        raise Unsupported(f"== of {a!r} and {b!r}")


def _not(v):
    if isinstance(v, SBool):
        return SBool(z3.Not(v.t))
    return not v


_OPNAME = {ast.Lt: ("__lt__", "__gt__"), ast.Gt: ("__gt__", "__lt__"), ast.LtE: ("__le__", "__ge__"),
           ast.GtE: ("__ge__", "__le__")}

_TO_SRC = {}


def _total_ordering_fn(I: Interp, name: str) -> FuncVal:
    """functools' own derivation functions, interpreted from the stdlib source"""
    if name not in _TO_SRC:
        src = inspect.getsource(getattr(functools, name))
        _TO_SRC[name] = ast.parse(src).body[0]
    m = I.modules.setdefault("<functools>", ModuleVal("<functools>", I))
    m.globals.setdefault("NotImplemented", NOTIMPL)
    m.globals.setdefault("type", I.intrinsics["type"])
    return FuncVal(_TO_SRC[name], m)


def _rich_method(I: Interp, o: Obj, name: str):
    m = o.cls.lookup(name)
    if m is not None:
        return m
    if name in ("__gt__", "__le__", "__ge__", "__lt__"):
        for c in o.cls.mro():
            if c.total_ordering:
                for base in ("__lt__", "__le__", "__gt__", "__ge__"):
                    if c.lookup(base) is not None and base != name:
                        conv = functools._convert[base]
                        for opname, opfunc in conv:
                            if opname == name:
                                real = [k for k, v in vars(functools).items() if v is opfunc][0]
                                return _total_ordering_fn(I, real)
                        break
    return None


def compare(I: Interp, op, a, b):
    if isinstance(op, ast.Is):
        return _identical(a, b)
    if isinstance(op, ast.IsNot):
        return _not(_identical(a, b))
    if isinstance(op, ast.Eq):
        return py_eq(I, a, b)
    if isinstance(op, ast.NotEq):
        if isinstance(a, Obj):
            m = a.cls.lookup("__ne__")
            if m is not None:
                r = I.call(m, [a, b])
                if r is not NOTIMPL:
                    return r
        return _not(py_eq(I, a, b))
    if isinstance(op, (ast.In, ast.NotIn)):
        r = contains(I, b, a)
        return r if isinstance(op, ast.In) else _not(r)
    if type(op) in _OPNAME:
        fwd, refl = _OPNAME[type(op)]
        if isinstance(a, Obj) or isinstance(b, Obj):
            if isinstance(a, Obj):
                m = _rich_method(I, a, fwd)
                if m is not None:
                    r = I.call(m, [a, b])
                    if r is not NOTIMPL:
                        return r
            if isinstance(b, Obj):
                m = _rich_method(I, b, refl)
                if m is not None:
                    r = I.call(m, [b, a])
                    if r is not NOTIMPL:
                        return r
            raise PyRaise(ExcVal("TypeError", (f"'{fwd}' not supported",)))
        if a is None or b is None:
            raise PyRaise(ExcVal("TypeError", ("ordering with None",)))
        if _is_num(a) and _is_num(b):
            if isinstance(a, SReal) or isinstance(b, SReal):
                x, y = _treal(a), _treal(b)
            else:
                x, y = _tint(a), _tint(b)
                if not isinstance(a, SInt) and not isinstance(b, SInt):
                    return {ast.Lt: a < b, ast.Gt: a > b, ast.LtE: a <= b, ast.GtE: a >= b}[type(op)]
            return SBool({ast.Lt: x < y, ast.Gt: x > y, ast.LtE: x <= y, ast.GtE: x >= y}[type(op)])
        sa, sb = _tstr(a), _tstr(b)
        if sa is not None and sb is not None:
            if isinstance(a, str) and isinstance(b, str):
                return {ast.Lt: a < b, ast.Gt: a > b, ast.LtE: a <= b, ast.GtE: a >= b}[type(op)]
            # CPython compares str by code point, lexicographically == SMT-LIB str.<
            lt, le = (lambda p, q: p < q), (lambda p, q: p <= q)
            return SBool({ast.Lt: lt(sa, sb), ast.Gt: lt(sb, sa), ast.LtE: le(sa, sb), ast.GtE: le(sb, sa)}[type(op)])
        if isinstance(a, tuple) and isinstance(b, tuple):
            return _tuple_order(I, op, a, b)
        if hasattr(I, "sval_order") and isinstance(a, SVal) and isinstance(b, SVal):
            return I.sval_order(op, a, b)
        raise Unsupported(f"ordering of {a!r} and {b!r}")
    raise Unsupported(f"compare op {type(op).__name__}")


def _tuple_order(I, op, a, b):
    # lexicographic: first differing element decides
    for x, y in zip(a, b):
        if truthy(I, py_eq(I, x, y)):
            continue
        strict = ast.Lt() if isinstance(op, (ast.Lt, ast.LtE)) else ast.Gt()
        return compare(I, strict, x, y)
    la, lb = len(a), len(b)
    return {ast.Lt: la < lb, ast.Gt: la > lb, ast.LtE: la <= lb, ast.GtE: la >= lb}[type(op)]


def _identical(a, b):
    if isinstance(a, SVal) and isinstance(b, SVal):
        return SBool(a.t == b.t)
    if isinstance(a, SBool) or isinstance(b, SBool):
        ta = a.t if isinstance(a, SBool) else (z3.BoolVal(a) if isinstance(a, bool) else None)
        tb = b.t if isinstance(b, SBool) else (z3.BoolVal(b) if isinstance(b, bool) else None)
        if ta is None or tb is None:
            return False
        return SBool(ta == tb)
    if isinstance(a, (SInt, SReal, SStr)) or isinstance(b, (SInt, SReal, SStr)):
        if a is None or b is None or a is NOTIMPL or b is NOTIMPL or isinstance(a, bool) or isinstance(b, bool):
            return False
        raise Unsupported("identity of symbolic scalars")
    return a is b


def contains(I: Interp, container, x):
    if isinstance(container, (tuple, list)):
        acc = []
        for y in container:
            r = py_eq(I, x, y)
            if r is True:
                return True
            if r is False:
                continue
            acc.append(r.t)
        if not acc:
            return False
        return SBool(z3.Or(*acc) if len(acc) > 1 else acc[0])
    if isinstance(container, dict):
        if isinstance(x, (str, int, bool, tuple)) or x is None:
            return x in container
        acc = []
        for y in container:
            r = py_eq(I, x, y)
            if r is True:
                return True
            if r is False:
                continue
            acc.append(r.t)
        return SBool(z3.Or(*acc)) if acc else False
    if isinstance(container, (str, SStr)) and isinstance(x, (str, SStr)):
        if isinstance(container, str) and isinstance(x, str):
            return x in container
        return SBool(z3.Contains(_tstr(container), _tstr(x)))
    if isinstance(container, Obj):
        m = container.cls.lookup("__contains__")
        if m is not None:
            return I.call(m, [container, x])
        hook = I.method_hooks.get((container.cls.name, "__contains__"))
        if hook:
            return hook(I, container, x)
    if hasattr(container, "pysym_contains"):
        return container.pysym_contains(I, x)
    raise Unsupported(f"`in` on {container!r}")


# ------------------------------------------------------------------------------ arithmetic


def binop(I: Interp, op, a, b):
    if isinstance(a, SBool):
        a = SInt(z3.If(a.t, z3.IntVal(1), z3.IntVal(0)))
    if isinstance(b, SBool):
        b = SInt(z3.If(b.t, z3.IntVal(1), z3.IntVal(0)))
    if isinstance(a, Obj) or isinstance(b, Obj):
        raise Unsupported("operator on object")
    if isinstance(op, ast.Add) and (isinstance(a, (str, SStr)) and isinstance(b, (str, SStr))):
        return I.concat_str([a, b])
    if isinstance(op, ast.Add) and isinstance(a, tuple) and isinstance(b, tuple):
        return a + b
    if isinstance(op, ast.Add) and isinstance(a, list) and isinstance(b, list):
        return a + b
    if isinstance(op, ast.Add) and isinstance(a, bytes) and isinstance(b, bytes):
        return a + b
    if hasattr(a, "pysym_binop"):
        return a.pysym_binop(I, op, b, False)
    if hasattr(b, "pysym_binop"):
        return b.pysym_binop(I, op, a, True)
    if not (_is_num(a) and _is_num(b)):
        raise Unsupported(f"binop {type(op).__name__} on {a!r}, {b!r}")
    if not isinstance(a, (SInt, SReal)) and not isinstance(b, (SInt, SReal)):
        try:
            r = {ast.Add: lambda: a + b, ast.Sub: lambda: a - b, ast.Mult: lambda: a * b,
                 ast.FloorDiv: lambda: a // b, ast.Mod: lambda: a % b, ast.Pow: lambda: a ** b,
                 ast.LShift: lambda: a << b, ast.RShift: lambda: a >> b, ast.BitAnd: lambda: a & b,
                 ast.BitOr: lambda: a | b}[type(op)]()
        except KeyError:
            raise Unsupported(f"binop {type(op).__name__}")
        except ZeroDivisionError:
            raise PyRaise(ExcVal("ZeroDivisionError"))
        return r
    real = isinstance(a, SReal) or isinstance(b, SReal)
    if real:
        x, y = _treal(a), _treal(b)
        if isinstance(op, ast.Add):
            return SReal(x + y)
        if isinstance(op, ast.Sub):
            return SReal(x - y)
        if isinstance(op, ast.Mult):
            return SReal(x * y)
        if isinstance(op, ast.Div):
            if I.path.branch(y == 0):
                raise PyRaise(ExcVal("ZeroDivisionError"))
            return SReal(x / y)
        raise Unsupported(f"real binop {type(op).__name__}")
    x, y = _tint(a), _tint(b)
    if isinstance(op, ast.Add):
        return SInt(x + y)
    if isinstance(op, ast.Sub):
        return SInt(x - y)
    if isinstance(op, ast.Mult):
        return SInt(x * y)
    if isinstance(op, (ast.FloorDiv, ast.Mod)):
        if I.path.branch(y == 0):
            raise PyRaise(ExcVal("ZeroDivisionError"))
        # Python floor semantics from SMT-LIB euclidean div/mod
        fq = z3.If(y > 0, x / y, (-x) / (-y))  # floor(x/y): for y<0, x/y == (-x)/(-y), euclid div with positive divisor is floor
        if isinstance(op, ast.FloorDiv):
            return SInt(fq)
        return SInt(x - y * fq)
    if isinstance(op, ast.BitAnd) and isinstance(b, int) and b >= 0 and (b & (b + 1)) == 0:
        return SInt(x % (b + 1))  # x & (2^k - 1) on Python ints == x mod 2^k (also for negative x)
    if isinstance(op, ast.RShift) and isinstance(b, int) and b >= 0:
        return SInt(x / (2 ** b))  # floor division (euclidean with positive divisor)
    if isinstance(op, ast.LShift) and isinstance(b, int) and b >= 0:
        return SInt(x * (2 ** b))
    raise Unsupported(f"int binop {type(op).__name__}")


# ------------------------------------------------------------------------------ attribute / item access


def getattr_(I: Interp, o, name: str):
    for h in I.attr_hooks:
        r = h(I, o, name)
        if r is not None:
            return r[0]
    if isinstance(o, Obj):
        if name in o.fields:
            return o.fields[name]
        m = o.cls.lookup(name)
        if m is not None:
            if isinstance(m, PropertyVal):
                return I.call(m.fget, [o])
            if isinstance(m, StaticMethodVal):
                return m.fn
            return BoundMethod(m, o)
        hook = I.method_hooks.get((o.cls.name, name))
        if hook is not None:
            return Intrinsic(f"{o.cls.name}.{name}", lambda I_, *a, **k: hook(I_, o, *a, **k))
        for c in o.cls.mro():
            hook = I.method_hooks.get((c.name, name))
            if hook is not None:
                return Intrinsic(f"{c.name}.{name}", lambda I_, *a, _h=hook, **k: _h(I_, o, *a, **k))
        if name == "__class__":
            return o.cls
        raise PyRaise(ExcVal("AttributeError", (name,)))
    if isinstance(o, ClassVal) and o.node is None and f"{o.name}.{name}" in I.intrinsics:
        return I.intrinsics[f"{o.name}.{name}"]
    if isinstance(o, ClassVal):
        m = o.lookup(name)
        if m is not None:
            if isinstance(m, StaticMethodVal):
                return m.fn
            return m
        if name == "__name__":
            return o.name
        raise Unsupported(f"class attribute {o.name}.{name}")
    if isinstance(o, ModuleVal):
        return I.global_lookup(o, name)
    if isinstance(o, ExtModule):
        key = f"{o.name}.{name}"
        if key in I.intrinsics:
            return I.intrinsics[key]
        if getattr(o, "fallback", None):
            # a repository module reached through a generated alias: interpret the real function from /repo
            return I.global_lookup(I.module(o.fallback), name)
        raise Unsupported(f"external {key}")
    if isinstance(o, ExcVal):
        if name == "args":
            return o.args
        raise Unsupported(f"exception attribute {name}")
    if isinstance(o, SReal):
        if name == "denominator":
            # only `== 1` is meaningful on the Real model; represent as 1 when integral, else 2 (any value != 1)
            return SInt(z3.If(z3.IsInt(o.t), z3.IntVal(1), z3.IntVal(2)))
        if name == "numerator":
            # meaningful only when integral (callers check denominator == 1 first)
            return SInt(z3.ToInt(o.t))
    if isinstance(o, (str, SStr)):
        from .strmodel import str_method

        return str_method(I, o, name)
    if isinstance(o, (bytes,)) or hasattr(o, "pysym_getattr"):
        if hasattr(o, "pysym_getattr"):
            return o.pysym_getattr(I, name)
    if isinstance(o, dict) and name in ("get", "items", "keys", "values"):
        if name == "get":
            return Intrinsic("dict.get", lambda I_, k, d=None: o.get(k, d))
        if name == "items":
            return Intrinsic("dict.items", lambda I_: list(o.items()))
        if name == "keys":
            return Intrinsic("dict.keys", lambda I_: list(o.keys()))
        if name == "values":
            return Intrinsic("dict.values", lambda I_: list(o.values()))
    if isinstance(o, list) and name == "append":
        return Intrinsic("list.append", lambda I_, v: o.append(v))
    if isinstance(o, list) and name == "pop":
        def _pop(I_, i=-1):
            if not o:
                raise PyRaise(ExcVal("IndexError", ("pop from empty list",)))
            return o.pop(i)
        return Intrinsic("list.pop", _pop)
    if isinstance(o, set) and name == "add":
        return Intrinsic("set.add", lambda I_, v: o.add(v))
    if isinstance(o, dict) and name == "update":
        return Intrinsic("dict.update", lambda I_, d: o.update(d))
    raise Unsupported(f"attribute {name} of {o!r}")


def getitem(I: Interp, o, k):
    if isinstance(o, (tuple, list, str, bytes)) and isinstance(k, int):
        try:
            return o[k]
        except IndexError:
            raise PyRaise(ExcVal("IndexError"))
    if isinstance(o, dict):
        if k in o:
            return o[k]
        raise PyRaise(ExcVal("KeyError", (k,)))
    if isinstance(o, ClassVal):
        return o  # Generic[T] subscription
    if hasattr(o, "pysym_getitem"):
        return o.pysym_getitem(I, k)
    raise Unsupported(f"subscript of {o!r} by {k!r}")


def getslice(I: Interp, o, lo, hi):
    if isinstance(o, (tuple, list, str, bytes)) and all(x is None or isinstance(x, int) for x in (lo, hi)):
        return o[lo:hi]
    if hasattr(o, "pysym_getslice"):
        return o.pysym_getslice(I, lo, hi)
    raise Unsupported(f"slice of {o!r}")


def iterate(I: Interp, v) -> List[Any]:
    if isinstance(v, (tuple, list)):
        return list(v)
    if isinstance(v, (set, frozenset)):
        return list(v)
    if isinstance(v, dict):
        return list(v.keys())
    if hasattr(v, "pysym_iterate"):
        return v.pysym_iterate(I)
    raise Unsupported(f"iteration over {v!r}")


# ------------------------------------------------------------------------------ builtins


def _isinstance(I: Interp, v, c):
    if isinstance(c, tuple):
        return any(_isinstance(I, v, x) for x in c)
    name = c.name if isinstance(c, ClassVal) else getattr(c, "__name__", str(c))
    if isinstance(v, Obj):
        return isinstance(c, ClassVal) and (v.cls.is_subclass(c) or any(k.name == c.name for k in v.cls.mro()))
    if v is None:
        return name == "NoneType" or name == "object"
    if v is NOTIMPL:
        return False
    table = {"int": (SInt, int), "bool": (SBool, bool), "str": (SStr, str), "Fraction": (SReal,),
             "float": (float,), "bytes": (bytes,), "tuple": (tuple,), "list": (list,), "dict": (dict,)}
    if name == "int" and isinstance(v, bool):
        return True
    if name in table:
        return isinstance(v, table[name])
    if isinstance(v, (SInt, SBool, SStr, SReal, int, str, bytes, float, tuple, list, dict)):
        if name in ("Decimal",):
            return False
        if name in ("object",):
            return True
        return False
    if isinstance(v, ExcVal):
        return exc_is_subclass(v.cls, name)
    if hasattr(v, "pysym_isinstance"):
        return v.pysym_isinstance(I, name)
    raise Unsupported(f"isinstance({v!r}, {name})")


def _len(I, v):
    if hasattr(v, "pysym_len"):
        return v.pysym_len(I)
    if isinstance(v, (tuple, list, str, bytes, dict, set, frozenset)):
        return len(v)
    if isinstance(v, SStr):
        return SInt(z3.Length(v.t))
    if isinstance(v, Obj):
        m = v.cls.lookup("__len__")
        if m is not None:
            return I.call(m, [v])
    if hasattr(v, "pysym_len"):
        return v.pysym_len(I)
    raise Unsupported(f"len of {v!r}")


def _type(I, v):
    if isinstance(v, Obj):
        return v.cls
    if v is None:
        return I.external_class("NoneType")
    raise Unsupported(f"type() of {v!r}")


def _hash(I, v):
    if isinstance(v, Obj):
        m = v.cls.lookup("__hash__")
        if m is not None:
            return I.call(m, [v])
    if hasattr(I, "hash_hook"):
        return I.hash_hook(v)
    raise Unsupported(f"hash of {v!r}")


def _exc_ctor(name):
    def mk(I, *args, **kw):
        return ExcVal(name, args)

    return mk


def install(I: Interp):
    X = I.intrinsics
    X["isinstance"] = Intrinsic("isinstance", _isinstance)
    X["len"] = Intrinsic("len", _len)
    X["type"] = Intrinsic("type", _type)
    X["hash"] = Intrinsic("hash", _hash)
    X["NotImplemented"] = NOTIMPL
    X["abs"] = Intrinsic("abs", lambda I_, v: (abs(v) if isinstance(v, int) else
                                               SInt(z3.If(v.t >= 0, v.t, -v.t)) if isinstance(v, SInt) else
                                               SReal(z3.If(v.t >= 0, v.t, -v.t))))
    X["bool"] = Intrinsic("bool", lambda I_, v=False: truthy(I_, v))
    X["tuple"] = Intrinsic("tuple", lambda I_, v=(): tuple(iterate(I_, v)))
    X["list"] = Intrinsic("list", lambda I_, v=(): list(iterate(I_, v)))
    X["zip"] = Intrinsic("zip", lambda I_, *its: list(zip(*[iterate(I_, x) for x in its])))
    X["enumerate"] = Intrinsic("enumerate", lambda I_, it, start=0: list(enumerate(iterate(I_, it), start)))
    X["reversed"] = Intrinsic("reversed", lambda I_, it: list(reversed(iterate(I_, it))))
    X["range"] = Intrinsic("range", lambda I_, *a: list(range(*a)))
    X["min"] = Intrinsic("min", lambda I_, *a: min(*a))
    X["max"] = Intrinsic("max", lambda I_, *a: max(*a))
    X["all"] = Intrinsic("all", lambda I_, it: all(truthy(I_, x) for x in iterate(I_, it)))
    X["any"] = Intrinsic("any", lambda I_, it: any(truthy(I_, x) for x in iterate(I_, it)))
    def _from_bytes(I_, b, order="little"):
        if order != "little":
            raise Unsupported("big-endian from_bytes")
        if isinstance(b, (bytes, bytearray)):
            return int.from_bytes(b, "little")
        return SInt(b.from_bytes_little())

    X["int.from_bytes"] = Intrinsic("int.from_bytes", _from_bytes)
    X["set"] = Intrinsic("set", lambda I_, it=(): set(iterate(I_, it)))
    X["dict"] = Intrinsic("dict", lambda I_, it=(): dict(it) if isinstance(it, dict) else dict(iterate(I_, it)))
    import builtins as _b
    import keyword as _k

    class NameSet:
        def __init__(self, names):
            self.names = sorted(names)

        def pysym_contains(self, I_, x):
            if isinstance(x, str):
                return x in self.names
            if hasattr(x, "eq"):
                return SBool(z3.Or(*[x.eq(n) for n in self.names]))
            raise Unsupported("membership of a non-string in a name set")

    X["builtins.__dict__"] = NameSet(list(_b.__dict__))
    X["keyword.iskeyword"] = Intrinsic("keyword.iskeyword", lambda I_, x: NameSet(_k.kwlist).pysym_contains(I_, x))
    X["str.maketrans"] = Intrinsic("str.maketrans", lambda I_, d: {(ord(k) if isinstance(k, str) else k): v for k, v in d.items()})
    X["builtins"] = ExtModule("builtins")
    X["keyword"] = ExtModule("keyword")
    X["object"] = I.external_class("object")
    for ext, short in (("decimal.Decimal", "Decimal"), ("fractions.Fraction", "Fraction"), ("Fraction", "Fraction"),
                       ("float", "float"), ("int", "int"), ("str", "str"), ("bytes", "bytes"), ("numbers.Number", "Number"),
                       ("numbers.Real", "Real"), ("decimal", None), ("fractions", None), ("numbers", None), ("math", None)):
        X[ext] = I.external_class(short) if short else ExtModule(ext)
    for n in list(_EXC_PARENTS) + list(_EXTRA_EXC):
        X.setdefault(n, Intrinsic(n, _exc_ctor(n)))
    for n in ("Generic", "TypeVar", "ParamSpec"):
        X[n] = Intrinsic(n, lambda I_, *a, **k: None)
    # exception classes must also work as `except X` targets: evaluate to a ClassVal-like with .name
    for n in list(_EXC_PARENTS) + list(_EXTRA_EXC):
        X[n] = _ExcClass(n)


class _ExcClass(Intrinsic):
    """callable exception class usable both as constructor and as `except` target"""

    def __init__(self, name):
        super().__init__(name, _exc_ctor(name))
        self.name = name
