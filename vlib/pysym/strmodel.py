"""str methods on z3 String terms (comparisons, prefixes, membership only — per-character
transducers are lowered elsewhere to the position-flattened integer encoding)."""
import z3

from .interp import Intrinsic, SBool, SInt, SStr, Unsupported


def _t(v):
    return v.t if isinstance(v, SStr) else z3.StringVal(v)


def str_method(I, s, name):
    if isinstance(s, str):
        def conc(I_, *a, **k):
            if all(isinstance(x, (str, int, type(None), tuple)) for x in a):
                return getattr(s, name)(*a, **k)
            return str_method(I_, SStr(z3.StringVal(s)), name).fn(I_, *a, **k)

        return Intrinsic(f"str.{name}", conc)
    if name == "startswith":
        return Intrinsic("str.startswith", lambda I_, p: SBool(z3.PrefixOf(_t(p), s.t)))
    if name == "endswith":
        return Intrinsic("str.endswith", lambda I_, p: SBool(z3.SuffixOf(_t(p), s.t)))
    if name == "find":
        return Intrinsic("str.find", lambda I_, p: SInt(z3.IndexOf(s.t, _t(p), 0)))
    raise Unsupported(f"str.{name} on symbolic string")
