"""PySym: a small forking symbolic interpreter for the Python subset used by basilisp's kernels.

Functions are taken from /repo as ASTs (loader.py) on every run.  Concrete structure, symbolic
leaves (z3 Int / Bool / String / Real / uninterpreted values).  Control forks on symbolic branch
conditions: paths are explored depth-first by re-execution along a decision trail, every fork
guarded by a z3 feasibility query.  Anything outside the subset raises Unsupported (the
obligation is then INCONCLUSIVE, never PROVED).
"""
from __future__ import annotations

import ast
import time
from typing import Any, Callable, Dict, List, Optional, Tuple

import z3

from . import loader


class Unsupported(Exception):
    pass


class UnwindingExceeded(Exception):
    pass


class PyRaise(Exception):
    """A Python exception raised by the interpreted program."""

    def __init__(self, exc):
        self.exc = exc  # ExcVal


class _Return(Exception):
    def __init__(self, v):
        self.v = v


class _Break(Exception):
    pass


class _Continue(Exception):
    pass


# ------------------------------------------------------------------------------ values


class SInt:
    __slots__ = ("t",)

    def __init__(self, t):
        self.t = t

    def __repr__(self):
        return f"SInt({self.t})"


class SBool:
    __slots__ = ("t",)

    def __init__(self, t):
        self.t = t

    def __repr__(self):
        return f"SBool({self.t})"


class SStr:
    __slots__ = ("t",)

    def __init__(self, t):
        self.t = t

    def __repr__(self):
        return f"SStr({self.t})"


class SReal:
    """exact rational; models fractions.Fraction (value only; .denominator == 1 <=> integral)"""
    __slots__ = ("t",)

    def __init__(self, t):
        self.t = t

    def __repr__(self):
        return f"SReal({self.t})"


ValSort = z3.DeclareSort("PyVal")


class SVal:
    """opaque Python object of unknown class: only identity / equality (uninterpreted) matter"""
    __slots__ = ("t",)

    def __init__(self, t):
        self.t = t

    def __repr__(self):
        return f"SVal({self.t})"


class ExcVal:
    def __init__(self, cls: str, args=()):
        self.cls, self.args = cls, tuple(args)

    def __repr__(self):
        return f"ExcVal({self.cls}{self.args!r})"


class ClassVal:
    def __init__(self, name, node: Optional[ast.ClassDef], module: "ModuleVal", bases=()):
        self.name, self.node, self.module, self.bases = name, node, module, list(bases)
        self.methods: Dict[str, Any] = {}
        self.total_ordering = False

    def mro(self) -> List["ClassVal"]:
        out = [self]
        for b in self.bases:
            if isinstance(b, ClassVal):
                for c in b.mro():
                    if c not in out:
                        out.append(c)
        return out

    def lookup(self, name):
        for c in self.mro():
            if name in c.methods:
                return c.methods[name]
        return None

    def is_subclass(self, other: "ClassVal") -> bool:
        return other in self.mro()

    def __repr__(self):
        return f"<class {self.name}>"


class Obj:
    def __init__(self, cls: ClassVal, fields=None):
        self.cls = cls
        self.fields: Dict[str, Any] = dict(fields or {})

    def __repr__(self):
        return f"<{self.cls.name} {self.fields}>"


class FuncVal:
    def __init__(self, node, module: "ModuleVal", closure: Optional[Dict[str, Any]] = None, name=None, cls=None):
        self.node, self.module, self.closure = node, module, closure
        self.name = name or getattr(node, "name", "<lambda>")
        self.cls = cls  # defining class (for name-mangling of __x)

    def __repr__(self):
        return f"<fn {self.name}>"


class BoundMethod:
    def __init__(self, fn, selfv):
        self.fn, self.selfv = fn, selfv


class Intrinsic:
    def __init__(self, name, fn):
        self.name, self.fn = name, fn

    def __repr__(self):
        return f"<intrinsic {self.name}>"


class LazyIntrinsic(Intrinsic):
    """called with (interp, frame, call-node): arguments are NOT evaluated (stubs for
    message formatting / exception payload construction)"""


class ExtModule:
    """a non-repository module (threading, functools, ...): attributes resolve to intrinsics"""

    def __init__(self, name, fallback=None):
        self.name = name
        self.fallback = fallback   # repository-relative path of a module to interpret for names without an intrinsic

    def __repr__(self):
        return f"<extmodule {self.name}>"


class DispatchVal:
    """functools.singledispatch function: default implementation + registrations read from the AST"""

    def __init__(self, default, name):
        self.default, self.name = default, name
        self.registry = []  # (type-expression AST, FuncVal, module)

    def __repr__(self):
        return f"<singledispatch {self.name}>"


class PropertyVal:
    def __init__(self, fget):
        self.fget = fget


class StaticMethodVal:
    def __init__(self, fn):
        self.fn = fn


class ModuleVal:
    def __init__(self, relpath: str, interp: "Interp"):
        self.relpath = relpath
        self.globals: Dict[str, Any] = {}
        self.interp = interp

    def __repr__(self):
        return f"<module {self.relpath}>"


NOTIMPL = NotImplemented


# ------------------------------------------------------------------------------ path exploration


class Path:
    def __init__(self, solver: z3.Solver, trail: List[List[Any]], stats: Dict[str, Any]):
        self.solver, self.trail, self.pos = solver, trail, 0
        self.pc: List[Any] = []
        self.stats = stats
        self.fresh_n = 0
        self.ghost: Dict[str, Any] = {}

    def fresh(self, prefix: str, sort) -> Any:
        self.fresh_n += 1
        return z3.Const(f"{prefix}!{self.fresh_n}", sort)

    def assume(self, cond) -> None:
        self.pc.append(cond)
        self.solver.add(cond)

    def _feasible(self, cond) -> bool:
        self.solver.push()
        self.solver.add(cond)
        t = time.time()
        r = self.solver.check()
        self.stats["queries"] = self.stats.get("queries", 0) + 1
        self.stats["solver_s"] = self.stats.get("solver_s", 0.0) + time.time() - t
        self.solver.pop()
        if r == z3.unknown:
            raise Unsupported("solver answered unknown on a branch feasibility query")
        return r == z3.sat

    def branch(self, cond) -> bool:
        cond = z3.simplify(cond) if not isinstance(cond, bool) else cond
        if isinstance(cond, bool):
            return cond
        if z3.is_true(cond):
            return True
        if z3.is_false(cond):
            return False
        if self.pos < len(self.trail):
            dec = self.trail[self.pos][0]
        else:
            t_ok = self._feasible(cond)
            f_ok = self._feasible(z3.Not(cond))
            if t_ok and f_ok:
                dec, alt = True, True
            elif t_ok:
                dec, alt = True, False
            elif f_ok:
                dec, alt = False, False
            else:
                raise _Infeasible()
            self.trail.append([dec, alt])
        self.pos += 1
        self.assume(cond if dec else z3.Not(cond))
        return dec

    def choose(self, n: int, tag: str = "choice") -> int:
        """symbolic choice among n alternatives (explored exhaustively; each alternative is a
        solver-visible constraint on a fresh Int so that models name the choice)."""
        v = self.fresh(tag, z3.IntSort())
        self.assume(z3.And(v >= 0, v < n))
        for i in range(n - 1):
            if self.branch(v == i):
                return i
        return n - 1


class _Infeasible(Exception):
    pass


def explore(run: Callable[[Path], Any], max_paths: int = 20000, timeout_s: float = 600.0,
            stats: Optional[Dict[str, Any]] = None):
    """Yield (path, outcome) for every feasible path; outcome = ('ret', v) | ('exc', ExcVal)."""
    stats = stats if stats is not None else {}
    trail: List[List[Any]] = []
    t0 = time.time()
    n = 0
    while True:
        solver = z3.Solver()
        solver.set("timeout", 60000)
        path = Path(solver, trail, stats)
        try:
            try:
                out = ("ret", run(path))
            except PyRaise as e:
                out = ("exc", e.exc)
            yield path, out
        except _Infeasible:
            pass
        n += 1
        stats["paths"] = n
        if n > max_paths or time.time() - t0 > timeout_s:
            raise Unsupported(f"path budget exceeded ({n} paths, {time.time() - t0:.0f}s)")
        while trail and not (trail[-1][1] and trail[-1][0] is True):
            trail.pop()
        if not trail:
            return
        trail[-1] = [False, False]


# ------------------------------------------------------------------------------ interpreter


class Interp:
    def __init__(self, unwind: int = 8, inline_depth: int = 40):
        self.unwind = unwind
        self.inline_depth = inline_depth
        self.modules: Dict[str, ModuleVal] = {}
        self.intrinsics: Dict[str, Any] = {}
        self.path: Optional[Path] = None
        self.depth = 0
        self.method_hooks: Dict[Tuple[str, str], Callable] = {}  # (class name, method) -> python impl
        self.attr_hooks: List[Callable] = []
        self.call_hooks: List[Callable] = []
        from . import pyproto

        pyproto.install(self)

    # ---- modules and classes from /repo
    def module(self, relpath: str) -> ModuleVal:
        if relpath in self.modules:
            return self.modules[relpath]
        m = ModuleVal(relpath, self)
        self.modules[relpath] = m
        _, tree = loader.module_ast(relpath)
        for s in tree.body:
            self._load_toplevel(m, s)
        return m

    def _load_toplevel(self, m: ModuleVal, s: ast.stmt):
        if isinstance(s, ast.FunctionDef):
            val, registered = self._apply_decorators(FuncVal(s, m), s, m, Frame(m, {}))
            if not registered or s.name not in m.globals:
                m.globals[s.name] = val
        elif isinstance(s, ast.ClassDef):
            m.globals.setdefault("__lazycls__", {})[s.name] = s
        elif isinstance(s, (ast.If, ast.Try)):
            for b in s.body:
                self._load_toplevel(m, b)
        elif isinstance(s, ast.Import):
            for a in s.names:
                top = a.name if a.asname else a.name.split(".")[0]
                m.globals.setdefault("__imports__", {})[a.asname or top] = ("module", top if not a.asname else a.name)
        elif isinstance(s, ast.ImportFrom) and s.module:
            for a in s.names:
                m.globals.setdefault("__imports__", {})[a.asname or a.name] = ("from", s.module, a.name)
        elif isinstance(s, ast.Assign) and len(s.targets) == 1 and isinstance(s.targets[0], ast.Name):
            m.globals.setdefault("__lazy__", {})[s.targets[0].id] = s.value
        elif isinstance(s, ast.AnnAssign) and isinstance(s.target, ast.Name) and s.value is not None:
            m.globals.setdefault("__lazy__", {})[s.target.id] = s.value

    NOOP_DECORATORS = ("_with_attrs", "_basilisp_fn", "functools.wraps", "wraps(", "lru_cache", "contextmanager")

    def _apply_decorators(self, fv, node, m, fr):
        """apply a function definition's decorators bottom-up, as Python does"""
        val = fv
        registered = False
        for d in reversed(node.decorator_list):
            dn = ast.unparse(d)
            if dn.endswith("singledispatch"):
                val = DispatchVal(val, node.name)
            elif (isinstance(d, ast.Call) and isinstance(d.func, ast.Attribute) and d.func.attr == "register"
                  and isinstance(d.func.value, ast.Name) and d.args and isinstance(m.globals.get(d.func.value.id), DispatchVal)):
                m.globals[d.func.value.id].registry.append((d.args[0], val, m))
                registered = True
            elif dn.endswith("_trampoline"):
                if isinstance(val, FuncVal):
                    val.trampoline = True
            elif any(k in dn for k in self.NOOP_DECORATORS) or dn in ("staticmethod", "property", "classmethod"):
                continue
            else:
                dec = self.eval(d, fr)
                val = self.call(dec, [val])
        return val, registered

    def module_from_source(self, key: str, src: str) -> "ModuleVal":
        """a pseudo-module whose top level is `src` (used for the compiler's generated Python)"""
        m = ModuleVal(key, self)
        self.modules[key] = m
        for s_ in ast.parse(src).body:
            self._load_toplevel(m, s_)
        return m

    def _decorate(self, fv, node, m):
        for d in node.decorator_list:
            dn = ast.unparse(d)
            if dn in ("staticmethod",):
                return StaticMethodVal(fv)
            if dn == "property":
                return PropertyVal(fv)
            if dn in ("functools.wraps(f)",):
                continue
            if dn.endswith(".setter"):
                return None
            fv.decorators = getattr(fv, "decorators", []) + [dn]
        return fv

    def _class(self, node: ast.ClassDef, m: ModuleVal) -> ClassVal:
        bases = []
        for b in node.bases:
            bn = ast.unparse(b).split("[")[0]
            try:
                bv = self.global_lookup(m, bn.split(".")[0]) if "." not in bn else None
            except Unsupported:
                bv = None
            bases.append(bv if isinstance(bv, ClassVal) else self.external_class(bn))
        c = ClassVal(node.name, node, m, bases)
        for d in node.decorator_list:
            if ast.unparse(d).endswith("total_ordering"):
                c.total_ordering = True
        for s in node.body:
            if isinstance(s, ast.FunctionDef):
                fv = FuncVal(s, m, cls=c)
                dv = self._decorate(fv, s, m)
                if dv is not None:
                    c.methods[s.name] = dv
            elif isinstance(s, ast.Assign) and len(s.targets) == 1 and isinstance(s.targets[0], ast.Name):
                # class-level alias such as `__call__ = deliver`
                if isinstance(s.value, ast.Name) and s.value.id in c.methods:
                    c.methods[s.targets[0].id] = c.methods[s.value.id]
        return c

    _ext: Dict[str, ClassVal] = {}

    def external_class(self, name: str) -> ClassVal:
        name = name.split(".")[-1]
        if name not in self._ext:
            self._ext[name] = ClassVal(name, None, None, [])
        return self._ext[name]

    def global_lookup(self, m: ModuleVal, name: str):
        if name in m.globals:
            return m.globals[name]
        lc = m.globals.get("__lazycls__", {})
        if name in lc:
            c = self._class(lc.pop(name), m)
            m.globals[name] = c
            return c
        lazy = m.globals.get("__lazy__", {})
        if name in lazy:
            v = self.eval(lazy[name], Frame(m, {}))
            m.globals[name] = v
            return v
        imps = m.globals.get("__imports__", {})
        if name in imps:
            v = self._resolve_import(imps[name])
            m.globals[name] = v
            return v
        if name in self.intrinsics:
            return self.intrinsics[name]
        raise Unsupported(f"unknown global {name} in {m.relpath}")

    def _repo_module_path(self, dotted: str):
        import os

        base = os.path.join(loader.REPO, "src", *dotted.split("."))
        if os.path.isfile(base + ".py"):
            return os.path.join("src", *dotted.split(".")) + ".py"
        if os.path.isfile(os.path.join(base, "__init__.py")):
            return os.path.join("src", *dotted.split("."), "__init__.py")
        return None

    def _resolve_import(self, spec):
        if spec[0] == "module":
            rp = self._repo_module_path(spec[1])
            return self.module(rp) if rp else ExtModule(spec[1])
        _, modname, attr = spec
        key = f"{modname}.{attr}"
        if key in self.intrinsics:
            return self.intrinsics[key]
        sub = self._repo_module_path(f"{modname}.{attr}")
        if sub:
            return self.module(sub)
        rp = self._repo_module_path(modname)
        if rp:
            return self.global_lookup(self.module(rp), attr)
        if attr in self.intrinsics:
            return self.intrinsics[attr]
        return ExtModule(key)

    def run_harness(self, src: str, *args, extra_globals=None):
        """interpret harness source (a single `def prop(...)`) over the real functions"""
        key = "<harness:%d>" % hash(src)
        if key not in self.modules:
            m = ModuleVal(key, self)
            tree = ast.parse(src)
            for s_ in tree.body:
                self._load_toplevel(m, s_)
            self.modules[key] = m
        m = self.modules[key]
        if extra_globals:
            m.globals.update(extra_globals)
        return self.call(m.globals["prop"], list(args))

    # ---- calling
    def call(self, f, args: List[Any], kwargs: Optional[Dict[str, Any]] = None):
        kwargs = kwargs or {}
        for h in self.call_hooks:
            r = h(self, f, args, kwargs)
            if r is not None:
                return r[0]
        if isinstance(f, Intrinsic):
            return f.fn(self, *args, **kwargs)
        if isinstance(f, BoundMethod):
            return self.call(f.fn, [f.selfv] + list(args), kwargs)
        if isinstance(f, StaticMethodVal):
            return self.call(f.fn, args, kwargs)
        if isinstance(f, FuncVal):
            r = self.call_func(f, args, kwargs)
            if getattr(f, "trampoline", False):
                n = 0
                while hasattr(r, "trampoline_args"):
                    n += 1
                    if n > self.unwind:
                        raise UnwindingExceeded(f"trampoline of {f.name} exceeded {self.unwind} bounces")
                    r = self.call_func(f, list(r.trampoline_args()), {})
            return r
        if isinstance(f, ClassVal):
            return self.instantiate(f, args, kwargs)
        if isinstance(f, DispatchVal):
            from .pyproto import _isinstance

            if not args:
                raise PyRaise(ExcVal("TypeError", ("singledispatch requires an argument",)))
            for texpr, impl, mod in f.registry:
                t = self.eval(texpr, Frame(mod, {}))
                if _isinstance(self, args[0], t):
                    return self.call(impl, args, kwargs)
            return self.call(f.default, args, kwargs)
        if callable(f) and getattr(f, "_pysym_native", False):
            return f(self, *args, **kwargs)
        raise Unsupported(f"call of {f!r}")

    def instantiate(self, c: ClassVal, args, kwargs):
        hook = self.method_hooks.get((c.name, "__new__"))
        if hook:
            return hook(self, c, *args, **kwargs)
        o = Obj(c)
        init = c.lookup("__init__")
        if init is not None:
            self.call(init, [o] + list(args), kwargs)
        elif args or kwargs:
            if c.node is None:
                raise Unsupported(f"constructor of external class {c.name}")
        return o

    def call_func(self, f: FuncVal, args, kwargs):
        node = f.node
        self.depth += 1
        if self.depth > self.inline_depth:
            self.depth -= 1
            raise Unsupported("inlining depth exceeded")
        try:
            a = node.args
            env: Dict[str, Any] = dict(f.closure or {})
            params = [p.arg for p in a.posonlyargs + a.args]
            defaults = a.defaults
            nd = len(defaults)
            args = list(args)
            if len(args) > len(params) and a.vararg is None:
                raise PyRaise(ExcVal("TypeError", ("too many positional arguments",)))
            for i, p in enumerate(params):
                if i < len(args):
                    env[p] = args[i]
                elif p in kwargs:
                    env[p] = kwargs.pop(p)
                elif i >= len(params) - nd:
                    env[p] = self.eval(defaults[i - (len(params) - nd)], Frame(f.module, {}))
                else:
                    raise PyRaise(ExcVal("TypeError", (f"missing argument {p}",)))
            if a.vararg is not None:
                env[a.vararg.arg] = tuple(args[len(params):])
            for i, p in enumerate(a.kwonlyargs):
                if p.arg in kwargs:
                    env[p.arg] = kwargs.pop(p.arg)
                elif a.kw_defaults[i] is not None:
                    env[p.arg] = self.eval(a.kw_defaults[i], Frame(f.module, {}))
                else:
                    raise PyRaise(ExcVal("TypeError", (f"missing kw argument {p.arg}",)))
            if a.kwarg is not None:
                env[a.kwarg.arg] = dict(kwargs)
            elif kwargs:
                raise PyRaise(ExcVal("TypeError", (f"unexpected keyword {list(kwargs)}",)))
            fr = Frame(f.module, env, f.cls)
            if isinstance(node, ast.Lambda):
                return self.eval(node.body, fr)
            try:
                self.exec_block(node.body, fr)
            except _Return as r:
                return r.v
            return None
        finally:
            self.depth -= 1

    # ---- statements
    def exec_block(self, body: List[ast.stmt], fr: "Frame"):
        for s in body:
            self.exec(s, fr)

    def exec(self, s: ast.stmt, fr: "Frame"):
        m = getattr(self, "x_" + type(s).__name__, None)
        if m is None:
            raise Unsupported(f"statement {type(s).__name__}: {ast.unparse(s)[:80]}")
        return m(s, fr)

    def x_Return(self, s, fr):
        raise _Return(self.eval(s.value, fr) if s.value is not None else None)

    def x_Pass(self, s, fr):
        pass

    def x_Expr(self, s, fr):
        if isinstance(s.value, ast.Constant):
            return
        self.eval(s.value, fr)

    def x_Global(self, s, fr):
        fr.globals_decl.update(s.names)

    def x_Nonlocal(self, s, fr):
        pass

    def x_Assert(self, s, fr):
        if not self.truthy(self.eval(s.test, fr)):
            raise PyRaise(ExcVal("AssertionError"))

    def x_If(self, s, fr):
        if self.truthy(self.eval(s.test, fr)):
            self.exec_block(s.body, fr)
        else:
            self.exec_block(s.orelse, fr)

    def x_Assign(self, s, fr):
        v = self.eval(s.value, fr)
        for t in s.targets:
            self.assign(t, v, fr)

    def x_AnnAssign(self, s, fr):
        if s.value is not None:
            self.assign(s.target, self.eval(s.value, fr), fr)

    def x_AugAssign(self, s, fr):
        cur = self.eval(_as_load(s.target), fr)
        v = self.binop(s.op, cur, self.eval(s.value, fr))
        self.assign(s.target, v, fr)

    def assign(self, t, v, fr):
        if isinstance(t, ast.Name):
            if t.id in fr.globals_decl:
                fr.module.globals[t.id] = v
            else:
                fr.env[t.id] = v
        elif isinstance(t, ast.Attribute):
            o = self.eval(t.value, fr)
            if not isinstance(o, Obj):
                raise Unsupported(f"attribute store on {o!r}")
            o.fields[self._mangle(t.attr, fr)] = v
        elif isinstance(t, (ast.Tuple, ast.List)):
            items = self.iterate(v)
            if len(items) != len(t.elts):
                raise PyRaise(ExcVal("ValueError", ("unpack",)))
            for e, x in zip(t.elts, items):
                self.assign(e, x, fr)
        elif isinstance(t, ast.Subscript):
            o = self.eval(t.value, fr)
            k = self.eval(t.slice, fr)
            self.setitem(o, k, v)
        else:
            raise Unsupported(f"assign target {ast.unparse(t)}")

    def setitem(self, o, k, v):
        if isinstance(o, dict) and _is_concrete(k):
            o[k] = v
            return
        if isinstance(o, list) and isinstance(k, int):
            o[k] = v
            return
        raise Unsupported(f"setitem on {type(o).__name__}")

    def x_While(self, s, fr):
        n = 0
        while True:
            if not self.truthy(self.eval(s.test, fr)):
                self.exec_block(s.orelse, fr)
                return
            n += 1
            if n > self.unwind:
                raise UnwindingExceeded(f"loop at line {s.lineno} exceeded {self.unwind} iterations")
            try:
                self.exec_block(s.body, fr)
            except _Break:
                return
            except _Continue:
                continue

    def x_For(self, s, fr):
        items = self.iterate(self.eval(s.iter, fr))
        for x in items:
            self.assign(s.target, x, fr)
            try:
                self.exec_block(s.body, fr)
            except _Break:
                return
            except _Continue:
                continue
        self.exec_block(s.orelse, fr)

    def x_Break(self, s, fr):
        raise _Break()

    def x_Continue(self, s, fr):
        raise _Continue()

    def x_Raise(self, s, fr):
        if s.exc is None:
            if fr.active_exc is None:
                raise Unsupported("bare raise outside handler")
            raise PyRaise(fr.active_exc)
        v = self.eval(s.exc, fr)
        if isinstance(v, ClassVal) or (isinstance(v, Intrinsic) and hasattr(v, "name") and not isinstance(v, ExcVal)):
            v = ExcVal(v.name)
        if isinstance(v, Obj):
            v = ExcVal(v.cls.name, (v,))
        if not isinstance(v, ExcVal):
            raise Unsupported(f"raise of {v!r}")
        raise PyRaise(v)

    def exc_matches(self, e: ExcVal, typ) -> bool:
        from .pyproto import exc_is_subclass

        if isinstance(typ, tuple):
            return any(self.exc_matches(e, t) for t in typ)
        name = getattr(typ, "name", None) or str(typ)
        return exc_is_subclass(e.cls, name)

    def x_Try(self, s, fr):
        try:
            try:
                self.exec_block(s.body, fr)
            except PyRaise as pe:
                for h in s.handlers:
                    if h.type is None or self.exc_matches(pe.exc, self.eval(h.type, fr)):
                        if h.name:
                            fr.env[h.name] = pe.exc
                        saved = fr.active_exc
                        fr.active_exc = pe.exc
                        try:
                            self.exec_block(h.body, fr)
                        finally:
                            fr.active_exc = saved
                        break
                else:
                    raise
            else:
                self.exec_block(s.orelse, fr)
        finally:
            # NB: a Python-level `finally` here also runs for _Return/_Break, as in Python
            if s.finalbody:
                self.exec_block(s.finalbody, fr)

    def x_With(self, s, fr):
        if len(s.items) != 1:
            raise Unsupported("multi-item with")
        cm = self.eval(s.items[0].context_expr, fr)
        ent = self.getattr(cm, "__enter__")
        v = self.call(ent, [])
        if s.items[0].optional_vars is not None:
            self.assign(s.items[0].optional_vars, v, fr)
        try:
            self.exec_block(s.body, fr)
        finally:
            self.call(self.getattr(cm, "__exit__"), [None, None, None])

    def x_FunctionDef(self, s, fr):
        val, _ = self._apply_decorators(FuncVal(s, fr.module, closure=fr.env, cls=fr.cls), s, fr.module, fr)
        fr.env[s.name] = val

    # ---- expressions
    def eval(self, e: ast.expr, fr: "Frame"):
        m = getattr(self, "e_" + type(e).__name__, None)
        if m is None:
            raise Unsupported(f"expression {type(e).__name__}: {ast.unparse(e)[:80]}")
        return m(e, fr)

    def e_Constant(self, e, fr):
        return e.value

    def e_Name(self, e, fr):
        if e.id in fr.env and e.id not in fr.globals_decl:
            return fr.env[e.id]
        return self.global_lookup(fr.module, e.id)

    def e_Tuple(self, e, fr):
        return tuple(self.eval(x, fr) for x in e.elts)

    def e_List(self, e, fr):
        return [self.eval(x, fr) for x in e.elts]

    def e_Dict(self, e, fr):
        d = {}
        for k, v in zip(e.keys, e.values):
            kk = self.eval(k, fr)
            if not _is_concrete(kk):
                raise Unsupported("dict literal with symbolic key")
            d[kk] = self.eval(v, fr)
        return d

    def e_Lambda(self, e, fr):
        return FuncVal(e, fr.module, closure=fr.env, name="<lambda>", cls=fr.cls)

    def e_IfExp(self, e, fr):
        return self.eval(e.body, fr) if self.truthy(self.eval(e.test, fr)) else self.eval(e.orelse, fr)

    def e_BoolOp(self, e, fr):
        v = None
        for i, x in enumerate(e.values):
            v = self.eval(x, fr)
            if i == len(e.values) - 1:
                return v
            t = self.truthy(v)
            if isinstance(e.op, ast.And) and not t:
                return v
            if isinstance(e.op, ast.Or) and t:
                return v
        return v

    def e_UnaryOp(self, e, fr):
        v = self.eval(e.operand, fr)
        if isinstance(e.op, ast.Not):
            if isinstance(v, SBool):
                return SBool(z3.Not(v.t))
            return not self.truthy(v)
        if isinstance(e.op, ast.USub):
            return self.binop(ast.Sub(), 0, v)
        raise Unsupported(f"unary {type(e.op).__name__}")

    def e_BinOp(self, e, fr):
        return self.binop(e.op, self.eval(e.left, fr), self.eval(e.right, fr))

    def e_Compare(self, e, fr):
        left = self.eval(e.left, fr)
        res = True
        for op, rx in zip(e.ops, e.comparators):
            right = self.eval(rx, fr)
            r = self.compare(op, left, right)
            if len(e.ops) == 1:
                return r
            if not self.truthy(r):
                return False
            left = right
        return res

    def e_Attribute(self, e, fr):
        o = self.eval(e.value, fr)
        return self.getattr(o, self._mangle(e.attr, fr))

    def _mangle(self, attr: str, fr: "Frame") -> str:
        if attr.startswith("__") and not attr.endswith("__") and fr.cls is not None:
            return f"_{fr.cls.name.lstrip('_')}{attr}"
        return attr

    def e_Call(self, e, fr):
        f = self.eval(e.func, fr)
        if isinstance(f, LazyIntrinsic):
            return f.fn(self, fr, e)
        args = []
        for a in e.args:
            if isinstance(a, ast.Starred):
                args.extend(self.iterate(self.eval(a.value, fr)))
            else:
                args.append(self.eval(a, fr))
        kwargs = {}
        for k in e.keywords:
            if k.arg is None:
                d = self.eval(k.value, fr)
                if not isinstance(d, dict):
                    raise Unsupported("** of non-dict")
                kwargs.update(d)
            else:
                kwargs[k.arg] = self.eval(k.value, fr)
        return self.call(f, args, kwargs)

    def e_Subscript(self, e, fr):
        o = self.eval(e.value, fr)
        if isinstance(e.slice, ast.Slice):
            lo = self.eval(e.slice.lower, fr) if e.slice.lower is not None else None
            hi = self.eval(e.slice.upper, fr) if e.slice.upper is not None else None
            if e.slice.step is not None:
                raise Unsupported("slice step")
            return self.getslice(o, lo, hi)
        k = self.eval(e.slice, fr)
        return self.getitem(o, k)

    def e_JoinedStr(self, e, fr):
        parts = []
        for v in e.values:
            if isinstance(v, ast.Constant):
                parts.append(v.value)
            else:
                x = self.eval(v.value, fr)
                try:
                    parts.append(self.to_str(x))
                except Unsupported:
                    # message formatting: the text of diagnostics does not matter to any property
                    return "<formatted message>"
        try:
            return self.concat_str(parts)
        except Unsupported:
            return "<formatted message>"

    def to_str(self, x):
        if isinstance(x, (str, SStr)) or hasattr(x, "concat_const"):
            return x
        if isinstance(x, int) and not isinstance(x, bool):
            return str(x)
        raise Unsupported(f"str() of {x!r}")

    def concat_str(self, parts):
        if all(isinstance(p, str) for p in parts):
            return "".join(parts)
        flat = [p for p in parts if hasattr(p, "concat_const")]
        if flat:
            # only <flat string> + constant suffix is needed by the kernels
            if len(flat) == 1 and parts[0] is flat[0] and all(isinstance(p, str) for p in parts[1:]):
                return flat[0].concat_const("".join(parts[1:]))
            raise Unsupported("concatenation shape with a flat symbolic string")
        ts = [p.t if isinstance(p, SStr) else z3.StringVal(p) for p in parts if not (isinstance(p, str) and p == "")]
        return SStr(z3.Concat(*ts) if len(ts) > 1 else ts[0])

    # ---- semantics helpers (delegated to pyproto)
    def truthy(self, v) -> bool:
        from . import pyproto

        return pyproto.truthy(self, v)

    def compare(self, op, a, b):
        from . import pyproto

        return pyproto.compare(self, op, a, b)

    def binop(self, op, a, b):
        from . import pyproto

        return pyproto.binop(self, op, a, b)

    def getattr(self, o, name):
        from . import pyproto

        return pyproto.getattr_(self, o, name)

    def getitem(self, o, k):
        from . import pyproto

        return pyproto.getitem(self, o, k)

    def getslice(self, o, lo, hi):
        from . import pyproto

        return pyproto.getslice(self, o, lo, hi)

    def iterate(self, v) -> List[Any]:
        from . import pyproto

        return pyproto.iterate(self, v)


class Frame:
    def __init__(self, module: ModuleVal, env: Dict[str, Any], cls: Optional[ClassVal] = None):
        self.module, self.env, self.cls = module, env, cls
        self.globals_decl = set()
        self.active_exc = None


def _as_load(t):
    import copy

    t2 = copy.copy(t)
    t2.ctx = ast.Load()
    return t2


def _is_concrete(v) -> bool:
    return v is None or isinstance(v, (bool, int, str, bytes, float)) or (
        isinstance(v, tuple) and all(_is_concrete(x) for x in v))
