"""Entry point: ./check <id> --tier quick|thorough | --replay <path>"""
from __future__ import annotations

import argparse
import importlib
import os
import subprocess
import sys
import traceback

from . import env

if env.ALT_REPO:   # development aid only, see env.py
    sys.path.insert(0, env.SRC)
    os.environ["PYTHONPATH"] = env.SRC + (os.pathsep + os.environ["PYTHONPATH"] if os.environ.get("PYTHONPATH") else "")


def main() -> int:
    ap = argparse.ArgumentParser()
    ap.add_argument("prop")
    ap.add_argument("--tier", default=os.environ.get("VERIF_TIER", "quick"), choices=["quick", "thorough"])
    ap.add_argument("--replay")
    ap.add_argument("--only", help="substring filter on obligation names (debugging)")
    a = ap.parse_args()
    prop = a.prop.upper()
    if a.replay:
        r = env.run_plain(a.replay, timeout=600)
        sys.stdout.write(r.stdout)
        sys.stderr.write(r.stderr)
        if r.returncode == 1 and "REPRODUCED" in r.stdout:
            print(f"VIOLATION property={prop} replay={a.replay}")
            return 1
        return 0 if r.returncode == 0 else env.EXIT_HARNESS
    seed = int(os.environ.get("VERIF_SEED", "0") or 0)
    try:
        mod = importlib.import_module(f"vlib.props.{prop.lower()}")
    except ModuleNotFoundError:
        print(f"HARNESS: no check for {prop}")
        return env.EXIT_HARNESS
    try:
        env.setup_process_env()
        rep = env.Report(prop, a.tier, mod.LEVEL, seed)
        rep.only = a.only
        if getattr(mod, "NEEDS_CORE", True):
            rep.extra["core_compile_s"] = round(env.warm_cache(), 1)
        mod.run(rep, a.tier, seed)
        return rep.finish()
    except env.HarnessError as e:
        print(f"HARNESS: {e}")
        return env.EXIT_HARNESS
    except Exception:
        traceback.print_exc()
        print("HARNESS: exception in verification machinery")
        return env.EXIT_HARNESS


if __name__ == "__main__":
    sys.exit(main())
