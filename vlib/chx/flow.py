"""Common Engine-A flow: run specs, replay refutations plainly, classify, record."""
from __future__ import annotations

from typing import Any, Callable, Dict, List, Optional

from .. import env
from ..env import INCONCLUSIVE, PROVED, REFUTED, Report, Result
from . import driver
from .driver import Spec

REPLAY_TAIL = '''

if __name__ == "__main__":
    _args = {args}
    try:
        _ok = h(**_args)
    except BaseException as _e:
        print("REPRODUCED: harness raised", type(_e).__name__, str(_e)[:300], "on", _args)
        sys.exit(1)
    if not _ok:
        import json as _json
        _d = {diagval}
        print("REPRODUCED: property false on", _args, "diag:", _d, "DIAGJSON=" + _json.dumps(_d, default=str) if isinstance(_d, dict) else "")
        sys.exit(1)
    print("HOLDS on", _args)
    sys.exit(0)
'''


def make_replay(prop: str, spec: Spec, cex_repr: str) -> str:
    diagval = 'DIAG(**_args)' if "def DIAG(" in spec.src else '""'
    body = spec.src + REPLAY_TAIL.format(args=cex_repr, diagval=diagval)
    return env.write_replay(prop, spec.name, body)


def run_specs(rep: Report, specs: List[Spec],
              matcher: Callable[[Spec, Dict[str, Any]], Dict[str, Any]],
              what: Callable[[Spec, Dict[str, Any]], str] = lambda s, c: "",
              procs: int = 16, replay_timeout: float = 120) -> List[Result]:
    only = getattr(rep, "only", None)
    if only:
        specs = [s for s in specs if only in s.name]
    by_name = {s.name: s for s in specs}
    raw = driver.run_all(specs, procs=procs)
    out = []
    for r in raw:
        spec = by_name[r["name"]]
        res = Result(r["name"], INCONCLUSIVE, bound=spec.bound, engine="A:crosshair", secs=r.get("secs", 0.0),
                     stats=r.get("stats") or {})
        rep.solver_s += r.get("secs", 0.0)
        rep.queries += int((r.get("stats") or {}).get("num_paths", 0)) or 0
        st = r["status"]
        if st == "confirmed":
            if r.get("twin") == "reached" or not spec.twin:
                res.verdict = PROVED
                res.detail = "CrossHair: confirmed over all paths; reachability twin refuted"
            else:
                res.detail = f"vacuous: reachability twin {r.get('twin')}"
        elif st == "refuted":
            if r.get("cex_repr") is None:
                res.detail = "counterexample without captured arguments: " + r["message"]
            else:
                path = make_replay(rep.prop, spec, r["cex_repr"])
                ok, line = env.replay_reproduces(path, timeout=replay_timeout)
                res.witness = r["cex"]
                res.reproduced = ok
                if ok:
                    res.verdict = REFUTED
                    res.replay = path
                    res.detail = line[:300]
                    try:
                        mt = matcher(spec, r["cex"], line)
                    except TypeError:
                        mt = matcher(spec, r["cex"])
                    rep.classify_refutation(res, mt, what(spec, r["cex"]))
                else:
                    rep.nonrepro += 1
                    res.detail = f"non-reproducing counterexample ({line[:200]}); engine said: {r['message'][:200]}"
                    try:
                        import os
                        os.unlink(path)
                    except OSError:
                        pass
        else:
            res.detail = f"{st}: {r['message'][:300]}"
        rep.add(res)
        out.append(res)
    return out
