"""Imported before any basilisp module in an Engine-A (CrossHair) harness process.

functools.singledispatch dispatches on ``args[0].__class__``; for a CrossHair proxy that is
the proxy class, so every basilisp protocol function would silently take its *default*
implementation.  This wrapper dispatches on ``type(args[0])`` (which CrossHair intercepts and
answers with the modelled Python type).  For ordinary objects the two are identical.
"""
import functools

if not getattr(functools, "_verif_sd_patched", False):
    _orig_sd = functools.singledispatch

    def singledispatch(func):
        sd = _orig_sd(func)
        dispatch = sd.dispatch

        def wrapper(*args, **kw):
            if not args:
                raise TypeError(f"{getattr(func, '__name__', 'singledispatch function')} requires at least 1 positional argument")
            return dispatch(type(args[0]))(*args, **kw)

        for a in ("register", "dispatch", "registry", "_clear_cache"):
            setattr(wrapper, a, getattr(sd, a))
        functools.update_wrapper(wrapper, func)
        return wrapper

    functools.singledispatch = singledispatch
    functools._verif_sd_patched = True
