"""Text prelude embedded in every Engine-A harness module and every replay script: it uses only
/repo (through /venv's editable install) and the stdlib, so the same text runs under CrossHair in
the harness process and plainly in /venv/bin/python for replays."""

PRELUDE = r'''
import importlib, sys, fractions, decimal, math, os
if os.environ.get("VERIF_NATIVE_SO") and "basilisp._lang" not in sys.modules:
    # use the native module freshly built from /repo/rust (the installed .so may predate the current sources)
    import importlib.machinery, importlib.util
    _ld = importlib.machinery.ExtensionFileLoader("basilisp._lang", os.environ["VERIF_NATIVE_SO"])
    _sp = importlib.util.spec_from_loader("basilisp._lang", _ld)
    _md = importlib.util.module_from_spec(_sp); sys.modules["basilisp._lang"] = _md; _ld.exec_module(_md)
from typing import *
import basilisp.main as _bm
_bm.init()
from basilisp.lang import runtime as rt, reader as rd, compiler as cc, symbol as sym
from basilisp.lang import keyword as kw, vector as vec, map as lmap, list as llist, set as lset, queue as lqueue
from basilisp.lang import seq as lseq
from basilisp.lang.interfaces import ISeq
core = importlib.import_module("basilisp.core")

def cfn(name, ns="basilisp.core"):
    """the function currently held by Var ns/name"""
    v = rt.Var.find(sym.symbol(name, ns=ns))
    if v is None:
        raise RuntimeError("verif harness: no Var " + ns + "/" + name)
    return v.value

def _get_ns(name):
    s = sym.symbol(name)
    ns = rt.Namespace.get_or_create(s)
    if name != "basilisp.core":
        ns.refer_all(rt.Namespace.get_or_create(rt.CORE_NS_SYM))
    sys.modules.setdefault(ns.module.__name__, ns.module)
    return ns

def lisp_eval(src, ns_name="verif.scratch", opts=None):
    """read + analyze + generate + optimize + compile + exec every form of `src` with the real
    pipeline (compile_and_exec_form) in namespace `ns_name`; returns the last value."""
    ns = _get_ns(ns_name)
    last = None
    if isinstance(opts, dict):  # compiler options are a Lisp map keyed by keywords
        opts = lmap.map({(kw.keyword(k) if isinstance(k, str) else k): v for k, v in opts.items()})
    with rt.ns_bindings(ns_name):
        ctx = cc.CompilerContext("<verif>", opts=opts)
        for form in rd.read_str(src, resolver=rt.resolve_alias):  # as the importer / REPL read source
            last = cc.compile_and_exec_form(form, ctx, ns)
    return last

def to_py(x, depth=0):
    """Structural, representation-tagged dump of a Lisp value into plain Python data (for
    comparing with a reference model without going through basilisp's own equality)."""
    if x is None or isinstance(x, (bool, int, float, str, bytes, fractions.Fraction, decimal.Decimal)):
        return x
    if isinstance(x, kw.Keyword):
        return ("kw", x.ns, x.name)
    if isinstance(x, sym.Symbol):
        return ("sym", x.ns, x.name)
    if isinstance(x, vec.PersistentVector):
        return ("vec", [to_py(e) for e in x])
    if isinstance(x, lmap.PersistentMap):
        return ("map", sorted(((to_py(k), to_py(v)) for k, v in x.items()), key=repr))
    if isinstance(x, lset.PersistentSet):
        return ("set", sorted((to_py(e) for e in x), key=repr))
    if isinstance(x, ISeq) or isinstance(x, llist.PersistentList):
        return ("seq", [to_py(e) for e in x])
    if isinstance(x, (list, tuple)):
        return (type(x).__name__, [to_py(e) for e in x])
    return ("obj", type(x).__name__, repr(x))

def seq_list(x):
    """elements of a seqable as a Python list (nil -> [])"""
    s = rt.to_seq(x)
    out = []
    while s is not None:
        out.append(s.first)
        s = rt.to_seq(s.rest)
    return out
'''


def harness(sig: str, body: str, pre=(), raises=(), module_code: str = "", warm=()) -> str:
    """Assemble harness module text.  `body` is the indented body of h (4 spaces); h must return
    True iff the property holds on the given inputs."""
    doc = ['    """']
    for p in pre:
        doc.append(f"    pre: {p}")
    if raises:
        doc.append("    raises: " + ", ".join(raises))
    doc.append("    post: _")
    doc.append('    """')
    return (PRELUDE + "\n" + module_code + "\n\n" + f"def h({sig}) -> bool:\n" + "\n".join(doc) + "\n" + body
            + "\n\nWARM = " + repr(list(warm)) + "\n")


TWIN_FROM, TWIN_TO = "    post: _\n", "    post: False\n"
