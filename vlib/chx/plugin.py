"""Tool-compatibility patches for CrossHair 0.0.110 on basilisp (harness process only)."""

LAST_CEX = {}


def install():
    import tokenize

    import crosshair.core as c
    import crosshair.util as u
    from crosshair.tracers import NoTracing

    if getattr(c, "_verif_patched", False):
        return
    orig = u.getsourcelines

    def safe(thing, _o=orig, _T=(tokenize.TokenError, SyntaxError, IndentationError)):
        try:
            return _o(thing)
        except _T as e:  # Lisp source is not Python
            raise OSError(str(e))

    u.getsourcelines = safe
    for mod in (c,):
        if getattr(mod, "getsourcelines", None) is orig:
            mod.getsourcelines = safe
    import crosshair.condition_parser as cp
    import crosshair.fnutil as fu

    for mod in (cp, fu):
        if getattr(mod, "getsourcelines", None) is orig:
            mod.getsourcelines = safe

    # execute every callee: no short-circuiting through fresh proxies
    c.consider_shortcircuit = lambda *a, **k: None

    orig_msg = c.make_counterexample_message

    def make_counterexample_message(conditions, args, return_val=None):
        msg = orig_msg(conditions, args, return_val)
        try:
            realized = c.deep_realize(args)
            with NoTracing():
                LAST_CEX[conditions.fn.__name__] = dict(realized.arguments)
        except Exception:
            pass
        return msg

    c.make_counterexample_message = make_counterexample_message
    c._verif_patched = True

    # C-boundary constructors fed a *string proxy* realise their argument first (CrossHair's pure-Python
    # decimal fork raises re.error on a symbolic str, which would surface as a false counterexample)
    import decimal as _decimal
    import types

    import basilisp.lang.reader as _R

    class _DecimalShim(types.ModuleType):
        def __getattr__(self, n):
            return getattr(_decimal, n)

        @staticmethod
        def Decimal(value="0", context=None):
            return _decimal.Decimal(c.deep_realize(value), context)

    _R.decimal = _DecimalShim("decimal")
