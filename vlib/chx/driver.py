"""Engine A: drive CrossHair through its Python API on generated harness functions.

One worker process imports basilisp once (shimmed singledispatch, plugin patches) and analyses
many harnesses.  A harness is the *source text of a Python module* defining a function ``h``
whose PEP316 docstring carries the contract (``pre:``/``post:``) and, optionally,
``WARM = [(args...), ...]`` concrete calls used for warm-up + pinned conformance.
"""
from __future__ import annotations

import importlib.util
import os
import sys
import time
import traceback
from dataclasses import dataclass, field
from typing import Any, Dict, List, Optional

from .. import env


@dataclass
class Spec:
    name: str
    src: str
    fn: str = "h"
    timeout: float = 30.0  # per_condition_timeout
    path_timeout: float = 10.0
    bound: str = ""
    twin: bool = True  # also run the reachability twin
    meta: Dict[str, Any] = field(default_factory=dict)


_READY = False


def _init_worker():
    global _READY
    if _READY:
        return
    env.setup_process_env()
    from . import shim  # noqa: F401  (before basilisp!)
    if os.environ.get("VERIF_NATIVE_SO") and "basilisp._lang" not in sys.modules:
        # the native module freshly built from the repository's rust/ sources differs from the installed .so: load the fresh one
        # *before* anything imports basilisp (harness modules repeat this check, but by then the parent has imported basilisp)
        import importlib.machinery

        ld = importlib.machinery.ExtensionFileLoader("basilisp._lang", os.environ["VERIF_NATIVE_SO"])
        sp = importlib.util.spec_from_loader("basilisp._lang", ld)
        md = importlib.util.module_from_spec(sp)
        sys.modules["basilisp._lang"] = md
        ld.exec_module(md)
    import basilisp.main as m

    m.init()
    import importlib

    importlib.import_module("basilisp.core")
    from . import plugin

    plugin.install()
    sys.setrecursionlimit(10000)
    _READY = True


def _load(spec: Spec, suffix: str = ""):
    d = os.path.join(env.scratch(), "harness")
    os.makedirs(d, exist_ok=True)
    safe = "".join(c if c.isalnum() else "_" for c in spec.name)[:100]
    path = os.path.join(d, f"h_{safe}{suffix}_{os.getpid()}.py")
    with open(path, "w") as f:
        f.write(spec.src)
    modname = f"verif_h_{safe}{suffix}_{os.getpid()}"
    sp = importlib.util.spec_from_file_location(modname, path)
    mod = importlib.util.module_from_spec(sp)
    sys.modules[modname] = mod
    sp.loader.exec_module(mod)
    return mod


def _analyze(fn, timeout, path_timeout):
    from crosshair.core_and_libs import analyze_function, run_checkables
    from crosshair.options import DEFAULT_OPTIONS, AnalysisOptionSet
    from crosshair.statespace import MessageType
    import collections

    stats = collections.Counter()
    opts = DEFAULT_OPTIONS.overlay(AnalysisOptionSet(
        per_condition_timeout=timeout, per_path_timeout=path_timeout, report_all=True,
        max_uninteresting_iterations=sys.maxsize, stats=stats))
    msgs = run_checkables(analyze_function(fn, opts))
    return msgs, stats


def run_spec(spec: Spec) -> Dict[str, Any]:
    """Returns {'status': confirmed|refuted|unknown|error, 'message', 'cex', 'twin', ...}."""
    t0 = time.time()
    out: Dict[str, Any] = {"name": spec.name, "status": "error", "message": "", "cex": None, "twin": None,
                           "bound": spec.bound, "meta": spec.meta}
    try:
        _init_worker()
        from crosshair.statespace import MessageType
        from . import plugin

        mod = _load(spec)
        fn = getattr(mod, spec.fn)
        # warm-up + conformance on pinned inputs (plain execution inside the shimmed process)
        for args in getattr(mod, "WARM", []):
            try:
                ok = fn(*args)
            except Exception as e:  # declared exceptions are fine for warm-up
                ok = ("exc", type(e).__name__)
            out.setdefault("warm", []).append(repr(ok)[:80])
        plugin.LAST_CEX.pop(spec.fn, None)
        msgs, stats = _analyze(fn, spec.timeout, spec.path_timeout)
        out["stats"] = {k: v for k, v in stats.items() if isinstance(v, (int, float))}
        states = [m.state for m in msgs]
        bad = [m for m in msgs if m.state in (MessageType.POST_FAIL, MessageType.EXEC_ERR, MessageType.POST_ERR)]
        if bad:
            out["status"] = "refuted"
            out["message"] = f"{bad[0].state.name}: {bad[0].message}"[:1000]
            cex = plugin.LAST_CEX.get(spec.fn)
            out["cex"] = _jsonable(cex) if cex is not None else None
            out["cex_repr"] = repr(cex) if cex is not None else None
        elif any(s in (MessageType.SYNTAX_ERR, MessageType.IMPORT_ERR) for s in states):
            out["status"] = "error"
            out["message"] = "; ".join(m.message for m in msgs)[:1000]
        elif states and all(s == MessageType.CONFIRMED for s in states):
            out["status"] = "confirmed"
        elif not states:
            out["status"] = "error"
            out["message"] = "no conditions found"
        else:
            out["status"] = "unknown"
            out["message"] = "; ".join(f"{m.state.name}: {m.message}" for m in msgs)[:500]
        # reachability twin: same body, postcondition False, must be refuted
        if spec.twin and out["status"] == "confirmed":
            from .lisp import TWIN_FROM, TWIN_TO
            tw_src = spec.src.replace(TWIN_FROM, TWIN_TO, 1)
            if tw_src == spec.src:
                out["twin"] = "no-post-line"
            else:
                tw = Spec(spec.name, tw_src, spec.fn, min(spec.timeout, 20.0), spec.path_timeout)
                m2 = _load(tw, "_twin")
                msgs2, _ = _analyze(getattr(m2, spec.fn), tw.timeout, tw.path_timeout)
                out["twin"] = "reached" if any(m.state == MessageType.POST_FAIL for m in msgs2) else \
                    "unreached:" + ";".join(m.state.name for m in msgs2)
    except BaseException as e:  # noqa
        out["status"] = "error"
        out["message"] = "".join(traceback.format_exception_only(type(e), e))[-800:] + traceback.format_exc()[-1200:]
    out["secs"] = time.time() - t0
    return out


def _jsonable(x):
    if isinstance(x, dict):
        return {str(k): _jsonable(v) for k, v in x.items()}
    if isinstance(x, (list, tuple)):
        return [_jsonable(v) for v in x]
    if isinstance(x, (int, float, str, bool)) or x is None:
        return x
    if isinstance(x, bytes):
        return {"__bytes__": list(x)}
    return {"__repr__": repr(x)}


def unjson(x):
    if isinstance(x, dict):
        if "__bytes__" in x:
            return bytes(x["__bytes__"])
        return {k: unjson(v) for k, v in x.items()}
    if isinstance(x, list):
        return [unjson(v) for v in x]
    return x


def _child(spec, conn):
    try:
        conn.send(run_spec(spec))
    except BaseException as e:  # noqa
        try:
            conn.send({"name": spec.name, "status": "error", "message": repr(e), "cex": None, "twin": None,
                       "bound": spec.bound, "meta": spec.meta, "secs": 0.0})
        except Exception:
            pass
    finally:
        conn.close()


def run_all(specs: List[Spec], procs: int = 16) -> List[Dict[str, Any]]:
    """Each obligation runs in its own forked process (state such as interned Vars / caches cannot leak
    between obligations) under a hard deadline: a worker that does not answer in time is killed and the
    obligation is INCONCLUSIVE."""
    import multiprocessing as mp

    if not specs:
        return []
    env.setup_process_env()
    ctx = mp.get_context("fork")
    _init_worker()  # import basilisp once in the parent so forks are warm
    results: Dict[int, Dict[str, Any]] = {}
    pending = list(enumerate(specs))
    running = {}  # idx -> (proc, conn, deadline, spec)
    while pending or running:
        while pending and len(running) < procs:
            idx, sp = pending.pop(0)
            parent, child = ctx.Pipe(duplex=False)
            pr = ctx.Process(target=_child, args=(sp, child), daemon=True)
            pr.start()
            child.close()
            running[idx] = (pr, parent, time.time() + sp.timeout * 2.2 + 45, sp)
        done = []
        for idx, (pr, conn, deadline, sp) in running.items():
            if conn.poll(0):
                try:
                    results[idx] = conn.recv()
                except EOFError:
                    results[idx] = {"name": sp.name, "status": "unknown", "message": "worker died", "cex": None, "twin": None,
                                    "bound": sp.bound, "meta": sp.meta, "secs": 0.0}
                done.append(idx)
            elif not pr.is_alive():
                results[idx] = {"name": sp.name, "status": "unknown", "message": f"worker exited with {pr.exitcode}", "cex": None,
                                "twin": None, "bound": sp.bound, "meta": sp.meta, "secs": 0.0}
                done.append(idx)
            elif time.time() > deadline:
                pr.kill()
                results[idx] = {"name": sp.name, "status": "unknown", "message": "hard deadline exceeded (worker killed)", "cex": None,
                                "twin": None, "bound": sp.bound, "meta": sp.meta, "secs": sp.timeout * 2.2 + 45}
                done.append(idx)
        for idx in done:
            pr, conn, _, _ = running.pop(idx)
            conn.close()
            pr.join(1)
        if not done:
            time.sleep(0.05)
    return [results[i] for i in range(len(specs))]
