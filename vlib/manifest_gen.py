"""Writes /verif/MANIFEST.json from the table below (run: .venv/bin/python -m vlib.manifest_gen)."""
import json
import os

from .env import VERIF

BASELINE_CMD = "cd /repo && /venv/bin/python -m pytest -ra -q -p no:cacheprovider --timeout=900 --continue-on-collection-errors"

CHECKS = {}
NOT_YET = {}


def check(pid, category, text, note, technique, design_ref, engine):
    CHECKS[pid] = dict(property_id=pid, quick_cmd=f"./check {pid} --tier quick", thorough_cmd=f"./check {pid} --tier thorough",
                       evidence_file=f"evidence/{pid}.json", replay_cmd_template=f"./check {pid} --replay {{path}}",
                       engine=engine, level_claimed={"category": category, "text": text, "design_ref": design_ref},
                       level_note=note, technique=technique)


from .manifest_data import register  # noqa: E402

register(check, NOT_YET)


def main():
    allp = [json.loads(l)["id"] for l in open(os.path.join(VERIF, "properties.jsonl"))]
    na = [{"property_id": p, "reason": NOT_YET.get(p, "no check built yet in this revision of /verif (see DESIGN.md section 4 for the plan)")}
          for p in allp if p not in CHECKS]
    m = {
        "version": 1,
        "setup_cmd": "./setup.sh",
        "hooks": {"guard": "BASILISP_VERIF", "enable": "none needed: all instrumentation is applied from the harness process "
                  "(monkeypatching, sys.settrace, environment variables); /repo carries no hook code",
                  "baseline_off_cmd": BASELINE_CMD, "source_commits": [], "add_only": True},
        "engines": [
            {"name": "A:crosshair", "path": "vlib/chx", "serves_properties": sorted(p for p, c in CHECKS.items() if "A" in c["engine"]),
             "kind_free_text": "CrossHair 0.0.110 (z3) symbolic execution of the repository's own Python and of the Python the "
                               "real compiler generates from the Lisp sources; per-harness reachability twin; plain-interpreter replay"},
            {"name": "B:pysym", "path": "vlib/pysym", "serves_properties": sorted(p for p, c in CHECKS.items() if "B" in c["engine"]),
             "kind_free_text": "own Python-AST -> z3 symbolic interpreter / bounded model checker, regenerated from /repo's source on "
                               "every run (unbounded strings and integers, exact rationals, symbolic schedules and map orders)"},
        ],
        "checks": [CHECKS[p] for p in allp if p in CHECKS],
        "not_applicable": na,
        "notes": "Verdict classes, bounds and replay discipline: DESIGN.md section 1. Every REFUTED obligation is replayed in "
                 "/venv/bin/python without CrossHair/shims before it is reported; INCONCLUSIVE obligations are listed in the evidence "
                 "and never counted as success. known_findings.jsonl lists recorded defects and fixed: entries.",
    }
    with open(os.path.join(VERIF, "MANIFEST.json"), "w") as f:
        json.dump(m, f, indent=1)
    print("MANIFEST.json:", len(m["checks"]), "checks,", len(na), "not_applicable")


if __name__ == "__main__":
    main()
