import sys
import basilisp.main as m
m.init()
from basilisp.lang import reader as rd, runtime as rt
lrepr = rt.lrepr
d = {9: None, 2: 0}
text = lrepr(d)
with rt.ns_bindings("basilisp.core"):
    back = list(rd.read_str(text))[0]
if lrepr(back) != text:
    print("REPRODUCED:", text, "re-read and re-printed gives", lrepr(back)); sys.exit(1)
print("HOLDS")
