import sys
import basilisp.main as m
m.init()
from basilisp.lang import compiler as cc, reader as rd, runtime as rt, symbol as sym
ns = rt.Namespace.get_or_create(sym.symbol("verif.c01f")); ns.refer_all(rt.Namespace.get_or_create(rt.CORE_NS_SYM))
sys.modules.setdefault(ns.module.__name__, ns.module)
with rt.ns_bindings("verif.c01f"):
    ctx = cc.CompilerContext("<f>"); last = None
    for f in rd.read_str("(loop* [i 0 fs []] (if (< i 3) (recur (inc i) (conj fs (fn* [] i))) (vec (map (fn* [f] (f)) fs))))"):
        last = cc.compile_and_exec_form(f, ctx, ns)
if list(last) != [0, 1, 2]:
    print("REPRODUCED: closures created in a loop body see the final value of the loop local:", last); sys.exit(1)
print("HOLDS")
