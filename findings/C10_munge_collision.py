# Canonical replay of the C10 munge-collision findings (runs in /venv/bin/python against /repo).
import sys
import basilisp.main as m
m.init()
from basilisp.lang import compiler as cc, reader as rd, runtime as rt, symbol as sym
ns = rt.Namespace.get_or_create(sym.symbol("verif.c10f")); ns.refer_all(rt.Namespace.get_or_create(rt.CORE_NS_SYM))
sys.modules.setdefault(ns.module.__name__, ns.module)
bad = []
for a, b in (("a-b", "a_b"), ("x?", "x__Q__"), ("or", "or_"), ("..", "__DOT_DOT__")):
    with rt.ns_bindings("verif.c10f"):
        ctx = cc.CompilerContext("<f>"); last = None
        for f in rd.read_str(f"(def {a} 1) (def {b} 2) {a}"):
            last = cc.compile_and_exec_form(f, ctx, ns)
    if last == 2:
        bad.append((a, b))
if bad:
    print("REPRODUCED: names sharing one Python binding:", bad); sys.exit(1)
print("HOLDS")
