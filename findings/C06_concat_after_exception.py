import sys
import basilisp.main as m
m.init()
from basilisp.lang import compiler as cc, reader as rd, runtime as rt, symbol as sym
ns = rt.Namespace.get_or_create(sym.symbol("verif.c06f")); ns.refer_all(rt.Namespace.get_or_create(rt.CORE_NS_SYM))
sys.modules.setdefault(ns.module.__name__, ns.module)
state = {"boom": True}
def produce(i):
    if i == 1 and state["boom"]:
        state["boom"] = False
        raise ValueError("producer failed once")
    return i
rt.Var.intern(sym.symbol("verif.c06f"), sym.symbol("produce"), produce)
with rt.ns_bindings("verif.c06f"):
    ctx = cc.CompilerContext("<f>"); last = None
    for f in rd.read_str("(def s (concat (map produce [0]) (map produce [1 2])))"):
        cc.compile_and_exec_form(f, ctx, ns)
    s = rt.Var.find(sym.symbol("s", ns="verif.c06f")).value
    try:
        list(s)
        print("HOLDS (no exception?)"); sys.exit(0)
    except ValueError:
        pass
    again = list(s)
if again != [0, 1, 2]:
    print("REPRODUCED: after the producer raised once, the concat seq reads as", again, "instead of raising again or yielding [0, 1, 2]"); sys.exit(1)
print("HOLDS")
