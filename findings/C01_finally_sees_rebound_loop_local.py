import sys
import basilisp.main as m
m.init()
from basilisp.lang import compiler as cc, reader as rd, runtime as rt, symbol as sym
ns = rt.Namespace.get_or_create(sym.symbol("verif.c01g")); ns.refer_all(rt.Namespace.get_or_create(rt.CORE_NS_SYM))
sys.modules.setdefault(ns.module.__name__, ns.module)
with rt.ns_bindings("verif.c01g"):
    ctx = cc.CompilerContext("<f>"); last = None
    for f in rd.read_str("(def log (atom [])) (loop* [i 0] (if (< i 2) (try (recur (inc i)) (finally (swap! log conj i))) @log))"):
        last = cc.compile_and_exec_form(f, ctx, ns)
if list(last) != [0, 1]:
    print("REPRODUCED: the finally clause of a try that recurs sees the loop local after recur rebound it:", last, "instead of [0 1]"); sys.exit(1)
print("HOLDS")
