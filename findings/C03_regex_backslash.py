import sys, re
import basilisp.main as m
m.init()
from basilisp.lang import reader as rd, runtime as rt
from basilisp.lang.obj import lrepr
p = re.compile(r"\s")
text = lrepr(p)
with rt.ns_bindings("basilisp.core"):
    back = list(rd.read_str(text))[0]
if back.pattern != p.pattern:
    print("REPRODUCED: pattern", repr(p.pattern), "prints as", text, "and reads back as", repr(back.pattern)); sys.exit(1)
print("HOLDS")
