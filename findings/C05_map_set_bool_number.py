# Canonical replay of known finding C05-map-set-bool-number (runs in /venv/bin/python against /repo).
import sys, importlib
import basilisp.main as m
m.init()
from basilisp.lang import runtime as rt, map as lmap, set as lset, keyword as kw, symbol as sym
eq = rt.Var.find(sym.symbol("=", ns="basilisp.core")).value
bad = []
if eq(lmap.map({kw.keyword("a"): True}), lmap.map({kw.keyword("a"): 1})): bad.append("(= {:a true} {:a 1})")
if eq(lset.set([True]), lset.set([1])): bad.append("(= #{true} #{1})")
if eq(lmap.map({False: 1}), lmap.map({0: 1})): bad.append("(= {false 1} {0 1})")
if bad:
    print("REPRODUCED: booleans equal numbers inside maps/sets:", bad); sys.exit(1)
print("HOLDS")
