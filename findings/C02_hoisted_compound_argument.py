import sys
import basilisp.main as m
m.init()
from basilisp.lang import compiler as cc, reader as rd, runtime as rt, symbol as sym
ns = rt.Namespace.get_or_create(sym.symbol("verif.c02f")); ns.refer_all(rt.Namespace.get_or_create(rt.CORE_NS_SYM))
sys.modules.setdefault(ns.module.__name__, ns.module)
trace = []
rt.Var.intern(sym.symbol("verif.c02f"), sym.symbol("t"), lambda k, v: (trace.append(k.name), v)[1])
with rt.ns_bindings("verif.c02f"):
    ctx = cc.CompilerContext("<f>")
    for f in rd.read_str("((fn [x y] [x y]) (t :a 1) (if (t :b true) (t :c 2) (t :d 3)))"):
        cc.compile_and_exec_form(f, ctx, ns)
if trace != ["a", "b", "c"]:
    print("REPRODUCED: argument evaluation order is", trace, "instead of ['a', 'b', 'c']"); sys.exit(1)
print("HOLDS")
