import sys
import basilisp.main as m
m.init()
from basilisp.lang import compiler as cc, reader as rd, runtime as rt, symbol as sym
ns = rt.Namespace.get_or_create(sym.symbol("verif.c07f")); ns.refer_all(rt.Namespace.get_or_create(rt.CORE_NS_SYM))
sys.modules.setdefault(ns.module.__name__, ns.module)
with rt.ns_bindings("verif.c07f"):
    ctx = cc.CompilerContext("<f>"); last = None
    for f in rd.read_str("[(vec (distinct [0 false 1 true])) (into [] (distinct) [false 0])]"):
        last = cc.compile_and_exec_form(f, ctx, ns)
a, b = [list(x) for x in last]
if [type(x) for x in a] != [int, bool, int, bool] or len(b) != 2:
    print("REPRODUCED: distinct drops a boolean that follows the number equal to it (and vice versa):", last); sys.exit(1)
print("HOLDS")
