# Replay script written by /verif: runs in /venv/bin/python against /repo, no CrossHair, no shims.
# Prints "REPRODUCED: ..." and exits 1 when the real code shows the failure, "HOLDS" / exit 0 otherwise.
import sys

from basilisp.lang import keyword as kw, symbol as sym, runtime as rt
mk = sym.symbol
vals = [{'_ns': 'c', '_name': 'b'}, {'_ns': 'a', '_name': 'c'}, None]
a, b, c = [mk(v["_name"], ns=v["_ns"]) if v else None for v in vals]
compare = rt.compare

def ref_lt(a, b):
    # the documented order: no-namespace first, then by namespace, then by name
    if a._ns is None and b._ns is None:
        return a._name < b._name
    if a._ns is None:
        return True
    if b._ns is None:
        return False
    if a._ns == b._ns:
        return a._name < b._name
    return a._ns < b._ns

def prop(a, b, c, compare):
    return (a < b) == ref_lt(a, b) and (compare(a, b) < 0) == ref_lt(a, b)

ok = prop(a, b, c, compare)
if not ok:
    print("REPRODUCED: Symbol/orders-by-ns-then-name false for", a, b, c, "compare(a,b) =", compare(a, b) if b is not None else None,
          "compare(b,a) =", compare(b, a) if b is not None else None)
    sys.exit(1)
print("HOLDS")
