# Replay script written by /verif: runs in /venv/bin/python against /repo, no CrossHair, no shims.
# Prints "REPRODUCED: ..." and exits 1 when the real code shows the failure, "HOLDS" / exit 0 otherwise.
import sys

from basilisp.lang import keyword as kw, symbol as sym, runtime as rt
mk = kw.keyword
vals = [{'_ns': 'a', '_name': 'b'}, {'_ns': 'd', '_name': 'a'}, {'_ns': 'a', '_name': 'b'}]
a, b, c = [mk(v["_name"], ns=v["_ns"]) if v else None for v in vals]
compare = rt.compare
def prop(a, b, c, compare):
    return (not (a < b and b < c)) or a < c

ok = prop(a, b, c, compare)
if not ok:
    print("REPRODUCED: Keyword/lt-transitive false for", a, b, c, "compare(a,b) =", compare(a, b) if b is not None else None,
          "compare(b,a) =", compare(b, a) if b is not None else None)
    sys.exit(1)
print("HOLDS")
