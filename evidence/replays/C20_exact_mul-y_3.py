# Replay script written by /verif: runs in /venv/bin/python against /repo, no CrossHair, no shims.
# Prints "REPRODUCED: ..." and exits 1 when the real code shows the failure, "HOLDS" / exit 0 otherwise.
import sys

import importlib, sys, fractions, decimal, math
from typing import *
import basilisp.main as _bm
_bm.init()
from basilisp.lang import runtime as rt, reader as rd, compiler as cc, symbol as sym
from basilisp.lang import keyword as kw, vector as vec, map as lmap, list as llist, set as lset, queue as lqueue
from basilisp.lang import seq as lseq
from basilisp.lang.interfaces import ISeq
core = importlib.import_module("basilisp.core")

def _get_ns(name):
    s = sym.symbol(name)
    ns = rt.Namespace.get_or_create(s)
    if name != "basilisp.core":
        ns.refer_all(rt.Namespace.get_or_create(rt.CORE_NS_SYM))
    sys.modules.setdefault(ns.module.__name__, ns.module)
    return ns

def lisp_eval(src, ns_name="verif.scratch", opts=None):
    """read + analyze + generate + optimize + compile + exec every form of `src` with the real
    pipeline (compile_and_exec_form) in namespace `ns_name`; returns the last value."""
    ns = _get_ns(ns_name)
    last = None
    with rt.ns_bindings(ns_name):
        ctx = cc.CompilerContext("<verif>", opts=opts)
        for form in rd.read_str(src):
            last = cc.compile_and_exec_form(form, ctx, ns)
    return last

def to_py(x, depth=0):
    """Structural, representation-tagged dump of a Lisp value into plain Python data (for
    comparing with a reference model without going through basilisp's own equality)."""
    if x is None or isinstance(x, (bool, int, float, str, bytes, fractions.Fraction, decimal.Decimal)):
        return x
    if isinstance(x, kw.Keyword):
        return ("kw", x.ns, x.name)
    if isinstance(x, sym.Symbol):
        return ("sym", x.ns, x.name)
    if isinstance(x, vec.PersistentVector):
        return ("vec", [to_py(e) for e in x])
    if isinstance(x, lmap.PersistentMap):
        return ("map", sorted(((to_py(k), to_py(v)) for k, v in x.items()), key=repr))
    if isinstance(x, lset.PersistentSet):
        return ("set", sorted((to_py(e) for e in x), key=repr))
    if isinstance(x, ISeq) or isinstance(x, llist.PersistentList):
        return ("seq", [to_py(e) for e in x])
    if isinstance(x, (list, tuple)):
        return (type(x).__name__, [to_py(e) for e in x])
    return ("obj", type(x).__name__, repr(x))

def seq_list(x):
    """elements of a seqable as a Python list (nil -> [])"""
    s = rt.to_seq(x)
    out = []
    while s is not None:
        out.append(s.first)
        s = rt.to_seq(s.rest)
    return out


from fractions import Fraction
def sign(v):
    return (v > 0) - (v < 0)
def exact_int(v):
    return type(v) is int
def norm_ok(v):
    """integral results are ints, never Fraction(n, 1), never float"""
    if type(v) is int:
        return True
    return isinstance(v, Fraction) and v.denominator != 1

def DIAG(**k):
    x = k["x"]; y = (lambda y=None: 3)(k.get("y"))
    return (core._STAR_(x, y),)


def h(x: int) -> bool:
    """
    post: _
    """
    y = 3
    v = core._STAR_(x, y)
    w = x * y
    return norm_ok(v) and v == w

WARM = [(3,), (-5,)]


if __name__ == "__main__":
    _args = {'x': 0}
    try:
        _ok = h(**_args)
    except BaseException as _e:
        print("REPRODUCED: harness raised", type(_e).__name__, str(_e)[:300], "on", _args)
        sys.exit(1)
    if not _ok:
        print("REPRODUCED: property false on", _args, "diag:", DIAG(**_args))
        sys.exit(1)
    print("HOLDS on", _args)
    sys.exit(0)
