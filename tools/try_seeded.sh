#!/bin/sh
# usage: tools/try_seeded.sh <seeded dir containing patch.diff> <property id> [quick|thorough] [--only substring]
# Applies the seeded change to /repo, runs the property's check, prints the verdict lines, and ALWAYS reverts /repo.
set -u
D="$1"; P="$2"; TIER="${3:-quick}"; shift 3 2>/dev/null || shift 2
cd /verif
if ! git -C /repo diff --quiet; then echo "refusing: /repo has uncommitted changes"; exit 2; fi
git -C /repo apply "$D/patch.diff" || { echo "patch does not apply"; exit 2; }
trap 'git -C /repo checkout -- . ; git -C /repo status --short | grep -v "^??" ' EXIT INT TERM
./check "$P" --tier "$TIER" "$@" > "/var/tmp/vscratch/seeded_${P}_$(basename $D).log" 2>&1
RC=$?
grep -a "^\[$P\]\|^VIOLATION\|^KNOWN-FINDING\|HARNESS" "/var/tmp/vscratch/seeded_${P}_$(basename $D).log" | cut -c1-220
echo "exit=$RC"
exit $RC
