#!/usr/bin/env python3
"""usage: tools/file_seed.py <agent out dir> <seed id> <property> "<caught by / what I ran>"  -- files a confirmed seeded change under /verif/seeded/<id>/"""
import json, os, shutil, sys
src, sid, prop, ran = sys.argv[1:5]
dst = os.path.join("/verif/seeded", sid)
os.makedirs(dst, exist_ok=True)
shutil.copy(os.path.join(src, "patch.diff"), dst)
shutil.copy(os.path.join(src, "demo.py"), dst)
meta = json.load(open(os.path.join(src, "meta.json")))
meta.update({"id": sid, "property": prop, "confirmed_by_me": ran})
json.dump(meta, open(os.path.join(dst, "meta.json"), "w"), indent=1)
print("filed", dst)
