#!/bin/sh
# usage: tools/run_all.sh quick|thorough [ids...]   runs the registered checks one after another; summary lines to stdout
TIER="${1:-quick}"; shift
IDS="${*:-C01 C02 C03 C04 C05 C06 C07 C08 C09 C10 C11 C12 C13 C14 C15 C16 C17 C18 C19 C20}"
cd /verif
for P in $IDS; do
  S=$(date +%s)
  timeout 3000 ./check "$P" --tier "$TIER" > "/var/tmp/vscratch/all_${TIER}_$P.log" 2>&1
  RC=$?
  E=$(( $(date +%s) - S ))
  echo "$P exit=$RC wall=${E}s $(grep -a "^\[$P\] tier" /var/tmp/vscratch/all_${TIER}_$P.log | cut -c1-160)"
  grep -a "^VIOLATION\|HARNESS" "/var/tmp/vscratch/all_${TIER}_$P.log" | cut -c1-200
done
