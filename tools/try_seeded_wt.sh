#!/bin/sh
# usage: tools/try_seeded_wt.sh <dir with patch.diff> <property id> [quick|thorough] [--only substring]
# Like try_seeded.sh, but never touches /repo's working tree: the patch is applied in a fresh scratch worktree and the check is
# pointed at it (VERIF_REPO), with evidence and replays going to a scratch directory. Safe to run while other checks read /repo.
set -u
D="$1"; P="$2"; TIER="${3:-quick}"; shift 3 2>/dev/null || shift 2
mkdir -p /tmp/seed; W=/tmp/seed/ts_$$
E=/var/tmp/vscratch/ev_$$
git -C /repo worktree add -q --detach "$W" HEAD || exit 2
trap 'cd /; git -C /repo worktree remove --force "$W"; rm -rf "$E"' EXIT INT TERM
cp /repo/src/basilisp/_lang.abi3.so "$W/src/basilisp/"
git -C "$W" apply "$D/patch.diff" || { echo "patch does not apply"; exit 2; }
cd /verif
L="/var/tmp/vscratch/seededwt_${P}_$(basename $D).log"
VERIF_REPO="$W" VERIF_EVIDENCE="$E" ./check "$P" --tier "$TIER" "$@" > "$L" 2>&1
RC=$?
grep -a "^\[$P\]\|^VIOLATION\|^KNOWN-FINDING\|HARNESS" "$L" | cut -c1-220
echo "exit=$RC"
exit $RC
