#!/bin/sh
# usage: tools/validate_seed.sh <dir with patch.diff + demo.py> [pytest targets...]
# Confirms in a fresh scratch worktree of /repo: demo passes without the patch, fails with it, given tests pass with it.
D="$1"; shift
mkdir -p /tmp/seed; W=/tmp/seed/val_$$
git -C /repo worktree add -q --detach "$W" HEAD || exit 2
cp /repo/src/basilisp/_lang.abi3.so "$W/src/basilisp/"
cd "$W"
export PYTHONPATH="$W/src" PYTHONDONTWRITEBYTECODE=1
/venv/bin/python "$D/demo.py" >/tmp/seed/val_clean.out 2>&1; RC_CLEAN=$?
git apply "$D/patch.diff" || { echo "PATCH DOES NOT APPLY"; cd /; git -C /repo worktree remove --force "$W"; exit 2; }
/venv/bin/python "$D/demo.py" >/tmp/seed/val_patched.out 2>&1; RC_PATCHED=$?
echo "demo: clean exit=$RC_CLEAN patched exit=$RC_PATCHED"; tail -2 /tmp/seed/val_patched.out | cut -c1-300
if [ $# -gt 0 ]; then /venv/bin/python -m pytest -q -p no:cacheprovider "$@" 2>&1 | tail -3; fi
cd /; git -C /repo worktree remove --force "$W"
