#!/usr/bin/env python3
"""Run the repository's pinned test suite and compare with /root/.vp/BASELINE.json's stable_pass list.
usage: baseline_check.py [outdir]   (writes junit xml + a summary; exit 0 iff every stable test passed)"""
import json, os, subprocess, sys, xml.etree.ElementTree as ET
out = sys.argv[1] if len(sys.argv) > 1 else "/var/tmp/vscratch"
os.makedirs(out, exist_ok=True)
xmlp = os.path.join(out, "junit.xml")
env = dict(os.environ); env.pop("BASILISP_VERIF", None)
subprocess.run("cd /repo && /venv/bin/python -m pytest -ra -q -p no:cacheprovider --timeout=900 --continue-on-collection-errors "
               f"--junitxml={xmlp} > {out}/suite.log 2>&1", shell=True, env=env)
base = set(json.load(open("/root/.vp/BASELINE.json"))["stable_pass"])
passed = set()
for tc in ET.parse(xmlp).getroot().iter("testcase"):
    if not any(c.tag in ("failure", "error", "skipped") for c in tc):
        passed.add(f"{tc.get('classname')}::{tc.get('name')}")
missing = sorted(base - passed)
print(f"baseline stable={len(base)} passed_now={len(passed)} stable_not_passing={len(missing)}")
for m in missing[:40]:
    print("  MISSING", m)
sys.exit(1 if missing else 0)
