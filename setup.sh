#!/bin/sh
# Builds /verif/.venv: an overlay of /venv (the repository's interpreter + deps) that adds
# crosshair-tool, z3-solver, cvc5 and jsonschema from the offline wheelhouse.  Idempotent.
set -e
cd "$(dirname "$0")"
V=.venv
if [ -x "$V/bin/python" ] && "$V/bin/python" -c 'import crosshair, z3, basilisp' 2>/dev/null; then
  exit 0
fi
rm -rf "$V"
/venv/bin/python -m venv "$V"
SP=$("$V/bin/python" -c 'import sysconfig;print(sysconfig.get_paths()["purelib"])')
printf '%s\n' "import site; site.addsitedir('/venv/lib/python3.12/site-packages')" > "$SP/_overlay.pth"
PIP_NO_INDEX=1 "$V/bin/python" -m pip install -q --no-index --find-links /opt/veriftools/wheels \
    crosshair-tool z3-solver cvc5 jsonschema >/dev/null
"$V/bin/python" -c 'import crosshair, z3, basilisp; print("verif venv ok", z3.get_version_string())'
